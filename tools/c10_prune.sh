#!/bin/bash
# Iteratively finds the generated callsites that the macro grammar rejects (compile errors) and
# records them in tools/c10_skip.txt, until the corpus compiles.
cd /verif
touch tools/c10_skip.txt
for i in $(seq 1 12); do
  python3 tools/gen_c10.py
  (cd engine && cargo build --release -p h_span 2> /tmp/c10_build.log)
  if ! grep -q "^error" /tmp/c10_build.log; then echo "compiles"; break; fi
  # map error line numbers in c10_gen.rs to function names
  grep -A1 "^error" /tmp/c10_build.log | grep -o "c10_gen.rs:[0-9]*" | cut -d: -f2 | sort -un > /tmp/c10_lines.txt
  n=0
  while read ln; do
    fn=$(sed -n "${ln}p" engine/h_span/src/c10_gen.rs | grep -o "^fn [a-zA-Z0-9_]*" | cut -d' ' -f2)
    if [ -n "$fn" ]; then echo "$fn" >> tools/c10_skip.txt; n=$((n+1)); fi
  done < /tmp/c10_lines.txt
  sort -u tools/c10_skip.txt -o tools/c10_skip.txt
  echo "round $i: $n new unsupported forms (total $(wc -l < tools/c10_skip.txt))"
  [ $n = 0 ] && { grep "^error" -A6 /tmp/c10_build.log | head -40; break; }
done
