#!/bin/bash
# usage: tools/run_all.sh <quick|thorough> [ids...]  — runs the checks one after another, prints rc and wall time per check.
tier="${1:-quick}"; shift || true
ids=("$@"); [ ${#ids[@]} -eq 0 ] && ids=(C01 C02 C03 C04 C05 C06 C07 C08 C09 C10 C11 C12 C13 C14 C15 C16 C17 C18 C19 C20)
cd "$(dirname "$0")/.."
for id in "${ids[@]}"; do
  s=$(date +%s)
  out=$(timeout 7200 ./check "$id" --tier "$tier" 2>&1); rc=$?
  e=$(date +%s)
  echo "== $id tier=$tier rc=$rc wall=$((e-s))s"
  echo "$out" | grep -E "^(VIOLATION|KNOWN-FINDING|MACHINERY-ERROR|\[C)" | cut -c1-400 | head -8
done
