#!/usr/bin/env python3
"""Generates engine/h_span/src/c10_gen.rs: the macro-form x field-form x value-type callsite corpus
for C10, each callsite with its expected visitor calls and expression-evaluation counts."""
import os, struct, itertools

out = []
cases = []  # rust struct literals
_here = os.path.dirname(os.path.abspath(__file__))
# (macro, prefix, shape) combinations the macro grammar does not accept (found by compiling; they
# fail to compile, so they are not part of the corpus): one function name per line
SKIP = set(l.strip() for l in open(os.path.join(_here, "c10_skip.txt")) if l.strip()) if os.path.exists(os.path.join(_here, "c10_skip.txt")) else set()

def rs(s):
    o = '"'
    for ch in s:
        c = ord(ch)
        if ch == '\\': o += '\\\\'
        elif ch == '"': o += '\\"'
        elif c < 0x20 or c > 0x7e: o += '\\u{%x}' % c
        else: o += ch
    return o + '"'

def f64_bits(x):
    return struct.unpack('<Q', struct.pack('<d', x))[0]

def f32_as_f64_bits(x):
    y = struct.unpack('<f', struct.pack('<f', x))[0]
    return f64_bits(y)

# ---------------------------------------------------------------------------------------------
# (A) value types: one callsite per (macro kind, type); values are passed at run time
# each entry: (fn suffix, rust param type, how to pass to macro, [ (rust value expr, method, expected repr) ])
types = []
def ints(ty, vals, method, bits):
    types.append((ty.replace('::', '_'), ty, "v", [(f"{v}{'' if 'Wrapping' in ty else ''}", method, str(v)) for v in vals]))
U = lambda n: [0, 1, 2**n - 1]
I = lambda n: [-(2**(n - 1)), -1, 0, 1, 2**(n - 1) - 1]
for n, ty in [(8, 'u8'), (16, 'u16'), (32, 'u32'), (64, 'u64'), (64, 'usize')]:
    types.append((ty, ty, "v", [(f"{v}{ty}", "u64", str(v)) for v in U(n)]))
for n, ty in [(8, 'i8'), (16, 'i16'), (32, 'i32'), (64, 'i64'), (64, 'isize')]:
    types.append((ty, ty, "v", [(f"({v}{ty})" if v >= 0 else f"({ty}::MIN)" if v == -(2**(n-1)) else f"({v}{ty})", "i64", str(v)) for v in I(n)]))
types.append(('u128', 'u128', "v", [(f"{v}u128", "u128", str(v)) for v in [0, 2**64, 2**128 - 1]]))
types.append(('i128', 'i128', "v", [("i128::MIN", "i128", str(-(2**127))), ("-1i128", "i128", "-1"), ("i128::MAX", "i128", str(2**127 - 1)), ("(i64::MAX as i128 + 1)", "i128", str(2**63))]))
for n, ty in [(8, 'u8'), (16, 'u16'), (32, 'u32'), (64, 'u64'), (64, 'usize')]:
    nz = 'NonZeroU' + ty[1:].capitalize() if ty != 'usize' else 'NonZeroUsize'
    types.append((nz, f'std::num::{nz}', "v", [(f"std::num::{nz}::new({v}).unwrap()", "u64", str(v)) for v in [1, 2**n - 1]]))
for n, ty in [(8, 'i8'), (16, 'i16'), (32, 'i32'), (64, 'i64'), (64, 'isize')]:
    nz = 'NonZeroI' + ty[1:].capitalize() if ty != 'isize' else 'NonZeroIsize'
    types.append((nz, f'std::num::{nz}', "v", [(f"std::num::{nz}::new({ty}::MIN).unwrap()", "i64", str(-(2**(n-1)))), (f"std::num::{nz}::new(-1).unwrap()", "i64", "-1"), (f"std::num::{nz}::new({ty}::MAX).unwrap()", "i64", str(2**(n-1) - 1))]))
types.append(('NonZeroU128', 'std::num::NonZeroU128', "v", [("std::num::NonZeroU128::new(u128::MAX).unwrap()", "u128", str(2**128 - 1)), ("std::num::NonZeroU128::new(7).unwrap()", "u128", "7")]))
types.append(('NonZeroI128', 'std::num::NonZeroI128', "v", [("std::num::NonZeroI128::new(i128::MIN).unwrap()", "i128", str(-(2**127))), ("std::num::NonZeroI128::new(7).unwrap()", "i128", "7")]))
types.append(('Wrapping_u8', 'std::num::Wrapping<u8>', "v", [("std::num::Wrapping(255u8)", "u64", "255")]))
types.append(('Wrapping_i64', 'std::num::Wrapping<i64>', "v", [("std::num::Wrapping(i64::MIN)", "i64", str(-(2**63)))]))
fvals = [("0.0", 0.0), ("-0.0", -0.0), ("1.5", 1.5), ("0.1", 0.1), ("f64::MAX", 1.7976931348623157e308), ("f64::MIN_POSITIVE", 2.2250738585072014e-308), ("f64::INFINITY", float('inf')), ("f64::NEG_INFINITY", float('-inf'))]
types.append(('f64', 'f64', "v", [(e, "f64", "bits:%d" % f64_bits(x)) for e, x in fvals] + [("f64::NAN", "f64", "nan")]))
f32vals = [("0.0f32", 0.0), ("-0.0f32", -0.0), ("0.1f32", 0.1), ("f32::MAX", 3.4028234663852886e38), ("f32::INFINITY", float('inf'))]
types.append(('f32', 'f32', "v", [(e, "f64", "bits:%d" % f32_as_f64_bits(x)) for e, x in f32vals] + [("f32::NAN", "f64", "nan")]))
types.append(('bool', 'bool', "v", [("true", "bool", "true"), ("false", "bool", "false")]))
strs = ["", "plain", "quo\"te\\", "\u202eRTL\u202c", "astral \U0001F600", "nul\0inside", "line\nbreak"]
types.append(('str', '&str', "v", [(rs(s), "str", s) for s in strs]))
types.append(('String', 'String', "v", [(rs(s) + ".to_string()", "str", s) for s in strs[:4]]))
types.append(('ref_String', '&String', "v", [("&" + rs(s) + ".to_string()", "str", s) for s in strs[1:3]]))
types.append(('bytes', '&[u8]', "v", [("&[][..]", "bytes", "[]"), ("&[0u8, 255, 34][..]", "bytes", "[0, 255, 34]")]))
types.append(('ref_u8', '&u8', "v", [("&7u8", "u64", "7")]))
types.append(('mutref_u16', '&mut u16', "v", [("&mut 513u16", "u64", "513")]))
types.append(('refref_i32', '&&i32', "v", [("&&-7i32", "i64", "-7")]))
types.append(('box_u64', 'Box<u64>', "v", [("Box::new(9u64)", "u64", "9")]))
types.append(('display', 'DV', "%v", [("DV(" + rs(s) + ")", "debug", s) for s in ["shown", "quo\"te", ""]]))
types.append(('debug', 'DV', "?v", [("DV(" + rs(s) + ")", "debug", "DBG<" + s + ">") for s in ["x", "a\nb"]]))
types.append(('field_display', 'DV', "tracing::field::display(v)", [("DV(\"fd\")", "debug", "fd")]))
types.append(('field_debug', 'DV', "tracing::field::debug(v)", [("DV(\"fg\")", "debug", "DBG<fg>")]))
types.append(('error', '&(dyn std::error::Error + \'static)', "v", [("&MyErr(\"outer\", Some(Box::new(MyErr(\"inner\", None))))", "error", "outer/inner"), ("&MyErr(\"solo\", None)", "error", "solo")]))
for sfx, bounds in [("send", "Send + "), ("sync", "Sync + "), ("send_sync", "Send + Sync + ")]:
    types.append(('error_' + sfx, "&(dyn std::error::Error + %s'static)" % bounds, "v", [("&MyErr(\"outer\", Some(Box::new(MyErr(\"inner\", None))))", "error", "outer/inner"), ("&MyErr(\"solo\", None)", "error", "solo")]))
types.append(('box_error_send_sync', "Box<dyn std::error::Error + Send + Sync + 'static>", "v", [("Box::new(MyErr(\"outer\", Some(Box::new(MyErr(\"inner\", None)))))", "error", "outer/inner")]))
types.append(('box_error', "Box<dyn std::error::Error + 'static>", "v", [("Box::new(MyErr(\"solo\", None))", "error", "solo")]))
types.append(('format_args', 'u32', "format_args!(\"fa {}\", v)", [("5", "debug", "fa 5")]))

out.append("// @generated by tools/gen_c10.py — do not edit")
out.append("#![allow(clippy::all, unused_variables, unused_mut, non_snake_case)]")
out.append("use crate::c10::{tick, Case, Exp, DV, MyErr};")
out.append("use tracing::Level;")
out.append("")

def emit_type_case(kind, suffix, ty, passing, vals):
    fn = f"ty_{kind}_{suffix}"
    if kind == "event":
        body = f"tracing::event!(Level::INFO, k = {passing});"
    else:
        body = f"let _s = tracing::span!(Level::INFO, \"ty\", k = {passing});"
    lt = "<'a>" if "&" in ty and "'static" not in ty else ""
    tyy = ty.replace("&", "&'a ") if lt else ty
    out.append(f"fn {fn}{lt}(v: {tyy}) {{ {body} }}")
    runs = []
    for expr, method, rep in vals:
        runs.append((expr, method, rep))
    out.append(f"fn run_{fn}(i: usize) {{ match i {{")
    for i, (expr, method, rep) in enumerate(runs):
        out.append(f"    {i} => {fn}({expr}),")
    out.append("    _ => unreachable!() } }")
    for i, (expr, method, rep) in enumerate(runs):
        cases.append(f'Case {{ name: {rs(fn + "#" + str(i))}, kind: {rs(kind)}, level: 3, run: |i| run_{fn}(i), arg: {i}, exp: &[Exp {{ name: "k", method: {rs(method)}, value: {rs(rep)} }}], ticks: &[], undeclared: false }}')

for suffix, ty, passing, vals in types:
    emit_type_case("event", suffix, ty, passing, vals)
    emit_type_case("span", suffix, ty, passing, vals)

# ---------------------------------------------------------------------------------------------
# (B) syntactic forms: macro x prefix x field-list shape
# a shape: (id, rust field tokens, locals prelude, expected [(name, method, value)], nticks, has_message)
shapes_event = [
    ("one", "k = tick(0, 7u32)", "", [("k", "u64", "7")], 1, False),
    ("msg", '"plain message"', "", [("message", "debug", "plain message")], 0, True),
    ("msgargs", 'k = tick(0, 7u32), "msg {} {}", tick(1, 5), tick(2, "x")', "", [("message", "debug", "msg 5 x"), ("k", "u64", "7")], 3, True),
    ("sigils", 'a = tick(0, 1i64), b = %tick(1, DV("d")), c = ?tick(2, DV("x"))', "", [("a", "i64", "1"), ("b", "debug", "d"), ("c", "debug", "DBG<x>")], 3, False),
    ("shorthand", 'local, %disp, ?dbg', 'let local = 3u64; let disp = DV("dd"); let dbg = DV("gg");', [("local", "u64", "3"), ("disp", "debug", "dd"), ("dbg", "debug", "DBG<gg>")], 0, False),
    ("dotted", 'a.b = tick(0, true), c.d.e = tick(1, 2.5f64)', "", [("a.b", "bool", "true"), ("c.d.e", "f64", "bits:%d" % f64_bits(2.5))], 2, False),
    ("dotted_short", 'st.field, %st.other', 'let st = St { field: 4u8, other: DV("oo") };', [("st.field", "u64", "4"), ("st.other", "debug", "oo")], 0, False),
    ("litname", '"lit name" = tick(0, 1u8), r#type = tick(1, "t")', "", [("lit name", "u64", "1"), ("r#type", "str", "t")], 2, False),
    ("empty", 'k = tracing::field::Empty, j = tick(0, 1u8)', "", [("j", "u64", "1")], 1, False),
    ("capture", 'z = tick(0, 1u8), "msg {cap}"', 'let cap = 3;', [("message", "debug", "msg 3"), ("z", "u64", "1")], 1, True),
    ("three_msg", 'a = tick(0, 1u8), b = tick(1, "s"), "m {}", tick(2, 1)', "", [("message", "debug", "m 1"), ("a", "u64", "1"), ("b", "str", "s")], 3, True),
    ("trailing_comma", 'a = tick(0, 1u8), b = tick(1, 2i8),', "", [("a", "u64", "1"), ("b", "i64", "2")], 2, False),
    ("litsigil", '"lit d" = %tick(0, DV("d")), "lit g" = ?tick(1, DV("x")), "last d" = %tick(2, DV("e"))', "", [("lit d", "debug", "d"), ("lit g", "debug", "DBG<x>"), ("last d", "debug", "e")], 3, False),
    ("brace_msg", '{ k = tick(0, 7u32) }, "plain message"', "", [("message", "debug", "plain message"), ("k", "u64", "7")], 1, True),
    ("brace_msgargs", '{ k = tick(0, 7u32), j = %tick(1, DV("d")) }, "msg {} {}", tick(2, 5), tick(3, "x")', "", [("message", "debug", "msg 5 x"), ("k", "u64", "7"), ("j", "debug", "d")], 4, True),
    ("litsigil2", '"lit g" = ?tick(0, DV("x")), mid = tick(1, 2u8), "lit d" = %tick(2, DV("d")), "last g" = ?tick(3, DV("y"))', "", [("lit g", "debug", "DBG<x>"), ("mid", "u64", "2"), ("lit d", "debug", "d"), ("last g", "debug", "DBG<y>")], 4, False),
]
shapes_span = [s for s in shapes_event if not s[5]] + [("nofields", "", "", [], 0, False)]

ev_macros = [("event", "tracing::event!", True, 3), ("trace", "tracing::trace!", False, 5), ("debug", "tracing::debug!", False, 4), ("info", "tracing::info!", False, 3), ("warn", "tracing::warn!", False, 2), ("error", "tracing::error!", False, 1)]
sp_macros = [("span", "tracing::span!", True, 3), ("trace_span", "tracing::trace_span!", False, 5), ("debug_span", "tracing::debug_span!", False, 4), ("info_span", "tracing::info_span!", False, 3), ("warn_span", "tracing::warn_span!", False, 2), ("error_span", "tracing::error_span!", False, 1)]
ev_prefixes = [("none", ""), ("target", 'target: "tg", '), ("parent", "parent: None, "), ("name", 'name: "nm", '), ("name_target", 'name: "nm", target: "tg", '), ("name_parent", 'name: "nm", parent: None, '), ("target_parent", 'target: "tg", parent: None, '), ("name_target_parent", 'name: "nm", target: "tg", parent: None, ')]
sp_prefixes = [("none", ""), ("target", 'target: "tg", '), ("parent", "parent: None, "), ("target_parent", 'target: "tg", parent: None, ')]

def exp_list(exp):
    return "&[" + ", ".join(f'Exp {{ name: {rs(n)}, method: {rs(m)}, value: {rs(v)} }}' for n, m, v in exp) + "]"

for mname, mpath, takes_level, lvl in ev_macros:
    for pname, ptoks in ev_prefixes:
        for sid, toks, prelude, exp, nt, has_msg in shapes_event:
            fn = f"f_{mname}_{pname}_{sid}"
            if fn in SKIP:
                continue
            lv = "Level::INFO, " if takes_level else ""
            out.append(f"fn {fn}(_: usize) {{ {prelude} {mpath}({ptoks}{lv}{toks}); }}")
            ticks = "&[" + ", ".join("1" for _ in range(nt)) + "]"
            cases.append(f'Case {{ name: {rs(fn)}, kind: "event", level: {lvl}, run: {fn}, arg: 0, exp: {exp_list(exp)}, ticks: {ticks}, undeclared: false }}')
for mname, mpath, takes_level, lvl in sp_macros:
    for pname, ptoks in sp_prefixes:
        for sid, toks, prelude, exp, nt, has_msg in shapes_span:
            fn = f"f_{mname}_{pname}_{sid}"
            if fn in SKIP:
                continue
            lv = "Level::INFO, " if takes_level else ""
            sep = ", " if toks else ""
            out.append(f"fn {fn}(_: usize) {{ {prelude} let _s = {mpath}({ptoks}{lv}\"spn\"{sep}{toks}); }}")
            ticks = "&[" + ", ".join("1" for _ in range(nt)) + "]"
            cases.append(f'Case {{ name: {rs(fn)}, kind: "span", level: {lvl}, run: {fn}, arg: 0, exp: {exp_list(exp)}, ticks: {ticks}, undeclared: false }}')

# Span::record of declared-empty and undeclared fields
out.append('fn f_record_later(_: usize) { let s = tracing::span!(Level::INFO, "rec", a = tracing::field::Empty, b = tick(0, 1u8)); s.record("a", tick(1, 5i32)); s.record("nope", tick(2, 6i32)); }')
cases.append('Case { name: "f_record_later", kind: "span", level: 3, run: f_record_later, arg: 0, exp: &[Exp { name: "b", method: "u64", value: "1" }, Exp { name: "a", method: "i64", value: "5" }], ticks: &[1, 1, 1], undeclared: true }')

# every arm of the field grammar: name form x sigil, in final and non-final position
arm_names = [("k", "k"), ("a.b", "a.b"), ('"lit n"', "lit n")]
arm_sigils = [("", "7u8", "u64", "7"), ("%", 'DV("d")', "debug", "d"), ("?", 'DV("g")', "debug", "DBG<g>")]
combos = [(nt, nn, sg, val, meth, rep) for nt, nn in arm_names for sg, val, meth, rep in arm_sigils]
def arm_field(i, c, suffix=""):
    nt, nn, sg, val, meth, rep = c
    name_tok = nt if not nt.startswith('"') else nt[:-1] + suffix + '"'
    if not nt.startswith('"'):
        name_tok = nt + suffix
    return f"{name_tok} = {sg}tick({i}, {val})", ((nn + suffix), meth, rep)
arm_shapes = []
toks, exp = [], []
for i, c in enumerate(combos):
    t, e = arm_field(i, c, str(i))
    toks.append(t); exp.append(e)
arm_shapes.append(("arms_all", ", ".join(toks), exp, len(combos)))
for j, c in enumerate(combos):
    t0, e0 = "z = tick(0, 1u8)", ("z", "u64", "1")
    t1, e1 = arm_field(1, c, "")
    arm_shapes.append((f"arms_last{j}", f"{t0}, {t1}", [e0, e1], 2))
    arm_shapes.append((f"arms_first{j}", f"{t1.replace('tick(1,', 'tick(0,')}, y = tick(1, 2u8)", [e1, ("y", "u64", "2")], 2))
for sid, toks, exp, nt in arm_shapes:
    for mname, call, kind in [("event", "tracing::event!(Level::INFO, {})", "event"), ("info", "tracing::info!({})", "event"), ("span", 'let _s = tracing::span!(Level::INFO, "spn", {});', "span"), ("info_span", 'let _s = tracing::info_span!("spn", {});', "span")]:
        fn = f"f_{mname}_{sid}"
        if fn in SKIP:
            continue
        body = call.format(toks)
        if not body.endswith(";"):
            body += ";"
        out.append(f"fn {fn}(_: usize) {{ {body} }}")
        ticks = "&[" + ", ".join("1" for _ in range(nt)) + "]"
        cases.append(f'Case {{ name: {rs(fn)}, kind: "{kind}", level: 3, run: {fn}, arg: 0, exp: {exp_list(exp)}, ticks: {ticks}, undeclared: false }}')

# wide callsites: more keys than any fixed-width bookkeeping would hold
def wide(n):
    return ", ".join(f"f{i} = tick({i}, {i}u8)" for i in range(n))
def wide_exp(n):
    return "&[" + ", ".join(f'Exp {{ name: "f{i}", method: "u64", value: "{i}" }}' for i in range(n)) + "]"
for n in (64, 65, 70):
    out.append(f"fn f_wide_event_{n}(_: usize) {{ tracing::event!(Level::INFO, {wide(n)}); }}")
    cases.append(f'Case {{ name: "f_wide_event_{n}", kind: "event", level: 3, run: f_wide_event_{n}, arg: 0, exp: {wide_exp(n)}, ticks: &[{", ".join("1" for _ in range(n))}], undeclared: false }}')
    out.append(f"fn f_wide_span_{n}(_: usize) {{ let _s = tracing::span!(Level::INFO, \"wide\", {wide(n)}); }}")
    cases.append(f'Case {{ name: "f_wide_span_{n}", kind: "span", level: 3, run: f_wide_span_{n}, arg: 0, exp: {wide_exp(n)}, ticks: &[{", ".join("1" for _ in range(n))}], undeclared: false }}')
out.append(f"fn f_wide_event_msg(_: usize) {{ tracing::event!(Level::INFO, {wide(66)}, \"wide {{}}\", tick(66, 1)); }}")
cases.append(f'Case {{ name: "f_wide_event_msg", kind: "event", level: 3, run: f_wide_event_msg, arg: 0, exp: &[Exp {{ name: "message", method: "debug", value: "wide 1" }}, ' + wide_exp(66)[2:] + f', ticks: &[{", ".join("1" for _ in range(67))}], undeclared: false }}')

# enabled! evaluates nothing and answers like the collector
for i, (pname, toks) in enumerate([("plain", "Level::INFO"), ("target", 'target: "tg", Level::INFO'), ("kind", 'kind: tracing::metadata::Kind::SPAN, target: "tg", Level::INFO')]):
    fn = f"f_enabled_{pname}"
    out.append(f"fn {fn}(_: usize) {{ let r = tracing::enabled!({toks}); crate::c10::probe_result(r); }}")
    cases.append(f'Case {{ name: {rs(fn)}, kind: "enabled", level: 3, run: {fn}, arg: 0, exp: &[], ticks: &[], undeclared: false }}')

out.append("")
out.append("struct St { field: u8, other: DV }")
out.append("")
out.append("pub static CASES: &[Case] = &[")
for c in cases:
    out.append("    " + c + ",")
out.append("];")
p = os.path.join(os.path.dirname(os.path.dirname(os.path.abspath(__file__))), "engine/h_span/src/c10_gen.rs")
open(p, "w").write("\n".join(out) + "\n")
print(len(cases), "cases")
