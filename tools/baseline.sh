#!/bin/bash
# usage: tools/baseline.sh [dir=/repo]  — runs the repository's baseline suite (guard off) and
# compares with /root/.vp/BASELINE.json: prints OK if all 507 stable tests pass.
dir="${1:-/repo}"
cd "$dir" || exit 2
log=$(mktemp /tmp/baseline.XXXX.log)
cargo nextest run --workspace --no-fail-fast --test-threads 8 --offline > "$log" 2>&1
python3 - "$log" <<'PY'
import json,re,sys
log=open(sys.argv[1]).read()
base=json.load(open('/root/.vp/BASELINE.json'))
stable=set(base['stable_pass']); known_fail=set(base['always_fail'])
passed=set(); failed=set()
for m in re.finditer(r'^\s*(PASS|FAIL|SIGABRT|SIGSEGV|TIMEOUT|LEAK)\s+\[[^\]]*\]\s+(?:\(\s*\d+/\d+\)\s+)?(\S+)(?:::\S+)?\s+(\S+)\s*$', log, re.M):
    st,bin_,name=m.group(1),m.group(2),m.group(3)
    crate=bin_.split('::')[0]
    full=f"{crate}::{bin_.split('::')[1]+'::' if '::' in bin_ else ''}{name}"
    (passed if st in('PASS','LEAK') else failed).add(full)
summ=re.findall(r'Summary.*', log)
print(summ[-1] if summ else 'no summary (build failure?)')
missing=[t for t in stable if t not in passed]
newfail=[t for t in failed if t in stable]
if not summ:
    print(log[-3000:]); sys.exit(2)
if missing:
    print("STABLE TESTS NOT PASSING:", len(missing)); print('\n'.join(sorted(missing)[:40])); sys.exit(1)
print("OK: all", len(stable), "stable tests pass; failing:", len(failed))
PY
rc=$?
rm -f "$log"
exit $rc
