#!/usr/bin/env python3
"""usage: confirm_seed.py <Cxx> <a|b> — confirms a sub-agent's seeded change in its scratch worktree
(/tmp/wt/<Cxx>, pristine snapshot): demo passes without the change, fails with it, and the repository's
own suite still passes with it. Writes /verif/seeded/<Cxx>-<x>/{patch.diff,demo.rs,meta.json}."""
import sys, re, os, subprocess, json, shutil
pid, x = sys.argv[1], sys.argv[2]
base = sys.argv[sys.argv.index("--base") + 1] if "--base" in sys.argv else "/tmp/wt"
name = sys.argv[sys.argv.index("--as") + 1] if "--as" in sys.argv else x
wt = f"{base}/{pid}"; src = f"{base}/out/{pid}/{x}"
def sh(c, cwd=wt, timeout=1800):
    r = subprocess.run(c, shell=True, cwd=cwd, capture_output=True, text=True, timeout=timeout)
    return r.returncode, (r.stdout + r.stderr)
demo = open(f"{src}/demo.rs").read()
m = re.search(r'(tracing[\w-]*)/tests/([\w.-]+\.rs)?', demo)
crate = m.group(1); fname = m.group(2) or f"{pid.lower()}_{x}_demo.rs"
test = fname[:-3]
res = {"property": pid, "variant": name, "base": subprocess.run("git log --format=%h -1", shell=True, cwd=wt, capture_output=True, text=True).stdout.strip(), "crate": crate, "demo_test": test}
sh("git checkout -- . && git clean -fdq -e target -e Cargo.lock")
dst = f"{wt}/{crate}/tests/{fname}"
os.makedirs(os.path.dirname(dst), exist_ok=True); shutil.copy(f"{src}/demo.rs", dst)
fm = re.search(r'--features[ =]([\w,-]+)', demo)
feat = f" --features {fm.group(1)}" if fm else ""
cmd = f"cargo test -p {crate} --test {test}{feat} --offline -- --test-threads 1"
rc0, out0 = sh(cmd)
res["demo_without_change"] = "pass" if rc0 == 0 else "FAIL"
rc, out = sh(f"git apply {src}/patch.diff")
res["patch_applies"] = rc == 0
rc1, out1 = sh(cmd)
res["demo_with_change"] = "fail" if rc1 != 0 else "PASS(!)"
res["demo_with_change_tail"] = out1[-600:]
os.remove(dst)
rcb, outb = sh("/verif/tools/baseline.sh " + wt)
res["suite_with_change"] = outb.strip().splitlines()[-1] if outb.strip() else ""
res["suite_ok"] = rcb == 0
sh("git checkout -- . && git clean -fdq -e target -e Cargo.lock")
res["confirmed"] = bool(rc0 == 0 and res["patch_applies"] and rc1 != 0 and rcb == 0)
res["commands"] = [cmd + "   (in a pristine scratch worktree: passes; with patch.diff applied: fails)", "tools/baseline.sh <worktree>   (with patch.diff applied, demo removed)"]
notes = open(f"{src}/NOTES.md").read() if os.path.exists(f"{src}/NOTES.md") else ""
res["needs_to_manifest"] = notes[:1500]
out = f"/verif/seeded/{pid}-{name}"
os.makedirs(out, exist_ok=True)
shutil.copy(f"{src}/patch.diff", f"{out}/patch.diff")
shutil.copy(f"{src}/demo.rs", f"{out}/demo.rs")
hk = f"/verif/seeded/tmp/{pid}/{x}/patch.hooked.diff"
if os.path.exists(hk) and open(hk).read() != open(f"{src}/patch.diff").read():
    shutil.copy(hk, f"{out}/patch.hooked.diff")
json.dump(res, open(f"{out}/meta.json", "w"), indent=1)
print(pid, name, "CONFIRMED" if res["confirmed"] else "NOT CONFIRMED", {k: res[k] for k in ("demo_without_change", "demo_with_change", "suite_ok", "patch_applies")})
