#!/usr/bin/env python3
"""Regenerates /verif/MANIFEST.json from the table below (single source of truth)."""
import json, subprocess, os
ROOT = os.path.dirname(os.path.dirname(os.path.abspath(__file__)))

def hooks_commits():
    try:
        out = subprocess.check_output(["git", "-C", "/repo", "log", "--format=%H %s"], text=True)
        return [l.split()[0] for l in out.splitlines() if " verif-hooks:" in l or l.split(" ",1)[1].startswith("verif-hooks")]
    except Exception:
        return []

# id -> dict(engine, category, technique, text, note, design_ref)
CHECKS = {
 "C15": dict(engine="h_app", category="model_checking", design="§3 C15",
   technique="stateless exhaustive schedule exploration with preemption bounding of producers, the library's worker thread and the guard holder as real threads under a cooperative scheduler, crossed with exhaustive fault masks on a scripted underlying writer (fresh process per schedule)",
   text="For every scenario (1-3 producers x 1-3 lines, queue capacity 1-3, lossy / non-lossy, guard dropped after the producers or at any time, every subset of the first writer calls failing) every interleaving up to the preemption bound of try_send / send / recv / try_recv / the shutdown handshake and of each write_all / flush of the underlying writer is executed and judged: each accepted line reaches the writer exactly once, whole, in per-producer order and consistent with real-time order; lossy: written + failed + dropped_lines = offered; non-lossy: nothing dropped, producers wait; a failed write loses only that line; after the guard drop returns everything accepted before it was written, a flush followed the last write, the writer was released; no deadlock.",
   note="The 100 ms / 1 s shutdown timeouts are modelled as never firing (a handshake that could only end by timeout is a deadlock). A blocking send racing with the worker's exit and wake-up by channel disconnection are not modelled. F9 (flush error on the shutdown batch strands the worker) was found here and repaired."),
 "C10": dict(engine="h_span", category="exploration", design="§3 C10",
   technique="exhaustive enumeration of a generated macro-form x field-form x value-type corpus under every filtering stage (fresh process per stage; compile-time cap in a separately built binary) + preemption-bounded exhaustive schedule exploration of racing first hits",
   text="Generated corpus (tools/gen_c10.py): {event!, trace!..error!} x 7 prefix forms x 12 field-list shapes and {span!, *_span!} x 4 prefix forms x the message-free shapes (every combination the macro grammar accepts), every Value type with boundary values in events and spans, Span::record of declared and undeclared fields, enabled!; every callsite is hit twice under collectors that enable it, disable it statically, disable it dynamically, enable it dynamically, cap the level by hint, and under the compile-time maximum level: a typed recording visitor must see each field once, under its declared name, in declaration order (message first), through the visitor method of its type with exactly the value; counters inside every field/message expression must read 1 when enabled and 0 when disabled. Two threads racing on the first hit of a disabled callsite are explored over every interleaving up to the bound.",
   note="Forms the macro grammar rejects at compile time (listed in tools/c10_skip.txt, found by compiling) are not part of the corpus. r#ident fields are visited under the name as written (r#ident)."),
 "C03": dict(engine="h_span", category="model_checking", design="§3 C03",
   technique="explicit-state BFS over programs on the Span API executed on fresh OS threads against two recording collectors, compared call-by-call with a handle/guard reference model",
   text="Every program up to the stated depth over {span! with contextual / root / explicit parent at enabled and filtered-out callsites, clone, drop, borrowed enter guards dropped in any order, entered()/exit()/drop of EnteredSpan, in_scope (also unwinding by panic), record, follows_from, Span::current, or_current, tracing's and tracing-futures' Instrumented futures polled 0..n times, dropped or taken apart with into_inner, operations performed on either of two threads, thread default switched between the span's own collector, another collector and none} is executed; after every operation the exact list of collector calls (which collector, which method, which span id, which thread) must equal the model: one new_span, one clone_span per extra handle, one try_close per dropped handle, enter/exit pairs on the calling thread, everything on the creating collector, nothing for disabled spans.",
   note="follows_from between spans of different collectors is outside the alphabet (the property does not define it). A handle is never dropped while a borrowed guard on it exists (as Rust's borrow checker enforces)."),
 "C14": dict(engine="h_fmt", category="exploration", design="§3 C14",
   technique="bounded-exhaustive input enumeration through the real JSON formatter, each record parsed by an independent strict JSON parser and compared with a value model; plus preemption-bounded exhaustive schedule exploration of concurrent record calls",
   text="Every string of length <= 2 over ASCII + 12 special code points (quotes, backslashes, controls, U+2028/2029, surrogate-range neighbours, astral) in every position (message, string/Debug/Display value, target, span name, span field value, event/span field name), boundary values of every integer width, floats incl. NaN/inf/-0/subnormal, bool, bytes, errors, under the flatten_event/current_span/span_list/display option combinations, in event fields and in span fields recorded at creation and in 1-3 later steps nested 1-3 deep: each record must be one line, one JSON object with unique keys at every level, and every recorded value must appear under the documented type mapping; spans listed root to leaf. 2-3 threads recording different fields on one span are explored over every interleaving up to the preemption bound: every field whose record() returned must appear.",
   note="Reserved keys (and the log.* / r# prefixes) are excluded as the property says. The strict parser is written for the harness (serde_json is only a second opinion). The type mapping accepted is listed in the evidence assumptions."),
 "C13": dict(engine="h_fmt", category="model_checking", design="§3 C13",
   technique="exhaustive enumeration of writer expressions and formatter configurations + exhaustive abort histories + preemption-bounded exhaustive schedule exploration of concurrent emitters (fresh process per schedule)",
   text="(1) every writer expression up to depth 3 over three recording sinks and {max level, min level, predicate, tee, or_else} is evaluated on 5 levels x 2 targets against its denotation (which sinks get the record, each asked with the record's metadata); (2) every formatter (full, compact, pretty, json) x 8 option bits x span-event subset x nesting depth runs through the real layer: one factory call with the event's metadata and one newline-terminated write per record, one line for full/compact/json, level, in-scope spans in nesting order with their fields, and every event field present; (3) all sequences up to the stated length of {normal event, event whose Debug panics and is caught, event whose Debug emits an event} on a fresh thread; (4) 2-3 threads emitting through one shared sink under the cooperative scheduler with points at the sink and inside field formatting: every write is exactly one whole record of one event.",
   note="Field values contain no raw newlines (as the property says). What a format prints for a span (compact: fields only; pretty: leaf to root) is taken from the format, the order/fields/one-write clauses from the property. F8 (dirty buffer after an aborted format) was found here and repaired."),
 "C11": dict(engine="h_filt", category="exploration", design="§3 C11",
   technique="exhaustive enumeration of directive lists from the documented grammar x a metadata universe against a specificity reference model (+ Targets/EnvFilter agreement, would_enable, Display round trip), and explicit-state BFS over enter/exit/record histories for span-scoped directives",
   text="Every list of <= 2 (thorough: <= 3) directives over targets with shared prefixes, field-name lists, level names in mixed case, digits, off, empty and invalid levels, bare levels and bare targets is parsed by Targets and EnvFilter and evaluated on 8 targets x 5 levels x 3 field sets x span/event: the verdict must be that of the most specific matching directive (ties accept both), both filter types must agree wherever both accept, would_enable must equal actual filtering, and printing then parsing must give a filter that prints and decides identically. For 8 span-scoped directive sets (names, targets, field presence, int/bool/string/regex value matchers) all histories up to the stated depth of {open span with an initial field value, record a value, close, events} are checked against 'level raised exactly while a matching span is entered, and for that span'.",
   note="Only documented directive forms are in the pool. Known findings: F10 (empty level / empty string accepted), F12 (',' inside a field list splits the directive), F16 (span callsites matched by a span directive are always enabled whatever its level), F18 (values recorded while a span is entered do not raise the level until re-entry) are attributed by exact input shape / defect variant."),
 "C12": dict(engine="h_filt", category="model_checking", design="§3 C12",
   technique="explicit-state BFS over reload/emission histories on two real threads + preemption-bounded exhaustive schedule exploration of reload || emit || emit under the cooperative scheduler (fresh process per schedule)",
   text="For each way of using a reload handle (a global filter layer, a per-layer filter, a Filtered layer inside reload::Subscriber changed through modify) and each initial value, every history up to the stated depth of {reload to another value of any kind, events and span open/close on two threads, dropping the collector} is executed; after reload returns every emission (cached always / cached never / first hit) must be judged by the new value and a handle of a dropped collector must report is_dropped. Races reload || cached-callsite emission || first-hit emission / span lifecycle are explored over every interleaving up to the preemption bound: an overlapping emission is judged entirely by the old or entirely by the new value, later ones by the new value, no deadlock.",
   note="SC at hook granularity (reload lock incl. a point while it is write-held, the unlock->rebuild gap, callsite registry lock, interest and MAX_LEVEL accesses). Known finding F17 (a Filtered layer inside reload is not recognised as per-layer-filtered, its hint becomes global) is attributed by a defect variant of the model."),
 "C08": dict(engine="h_filt", category="exploration", design="§3 C08",
   technique="exhaustive enumeration of filter expressions and stack shapes x a static metadata universe x span contexts through the Collect API, checking the summary/decision implication table and (for stacks) the cached-shortcut path against the full path",
   text="Every filter expression up to the stated depth over level thresholds, target tables (incl. duplicate/conflicting entries), static, span-scoped and value-matching EnvFilters, closure filters with and without true hints, Option, reload, and/or/not, and every stack shape (C07's generator plus global filters inside Vec/Option/trees) is evaluated on 26 static metadata x 4 span contexts: callsite_enabled/register_callsite = never implies enabled() false everywhere, always implies true everywhere, a max-level hint h implies nothing above h is enabled; for stacks, delivery with the cached shortcut (no enabled() call) must equal delivery on the full path.",
   note="Closure filters only get true upper bounds as hints (self-consistency). Known findings F11 (Vec publishes the highest interest of its members) and F16 (EnvFilter publishes `always` for span callsites matched by a span directive regardless of its level) are attributed by exact case shape."),
 "C07": dict(engine="h_filt", category="model_checking", design="§3 C07",
   technique="explicit-state BFS over emission histories for every generated stack configuration, executed through the real macros on a fresh OS thread with a freshly built Dispatch, against a stack-semantics reference model; state key includes the thread's per-layer-filter bitmap (observation hook)",
   text="For every generated stack (<= 4 positions of plain / global-filter / per-layer-filtered layers; Layered trees via and_then, Vec, Option, Box, nested Filtered; filters drawn from level thresholds, target tables, EnvFilter static and span-scoped directives, static and context-dependent closures, and/or/not; also two different stacks on two threads) every history up to the stated depth of {event, open+enter span, record, close, enabled! probe} is executed; after every step each recording layer's callbacks, lookup_current() and scope() must equal what the model says: global filters AND the filters on the layer's own path, each evaluated on the spans visible to it.",
   note="Callsites are pre-registered (first-hit is C01/C04's business). The reference semantics of each filter kind is the model in engine/h_filt/src/stack.rs. tracing-subscriber is built without debug assertions (release behaviour). Known finding F3 (enabled! probe leaves a stale per-layer bit) is attributed exactly: only the layers whose filters rejected the probe may miss the next emission while the bitmap is non-zero."),
 "C09": dict(engine="h_filt", category="exploration", design="§3 C09",
   technique="exhaustive enumeration of a finite configuration matrix (wrapper x nesting x position x method) on statically typed stacks, one fresh process per cell, absolute + differential oracle",
   text="Every generated stack (1-5 recording layers over the Registry or an id-changing recording collector; each of Box, Box<dyn>, Some, vec![_], reload::Subscriber, and_then(Identity) at every position, every nested pair, None / empty Vec at every position, Box/Arc/Box<dyn>/Arc<dyn> around the base collector and around the whole stack; Box<dyn>/Arc<dyn>/Some/reload around a per-layer filter incl. nested pairs) x {interest always, sometimes} x {no veto, enabled-veto by layer k, event_enabled-veto by layer k} runs one workload that exercises every Collect/Subscribe/Filter method; each layer must log each notification exactly once per occurrence, inner before outer, vetoes stop delivery to all, and each layer's view must equal its view in the unwrapped stack.",
   note="The matrix is finite and enumerated completely (counts in the evidence). Filtered(accept-all) is not one of the property's pass-through wrappers and is not in the matrix. Defects F4-F7, F14, F15 found by this check were repaired by fix: commits and are reported again if they return."),
 "C20": dict(engine="h_fmt", category="exploration", design="§3 C20",
   technique="exhaustive sweep of a finite instant set through the real format_time entry point (clock seam), compared with an independent integer calendar algorithm",
   text="Complete sweeps, not samples: every day of years 0001-9999 at three times of day, every second in windows around year ends, leap days, century and 400-year boundaries and the epoch, a sub-second grid on both sides of the epoch and of the 4-digit range, and +-2^k seconds out to the extremes; every output is compared field by field with an independent days-to-civil algorithm (cross-checked against the time crate) and consecutive outputs must not decrease.",
   note="The instant is injected through the verif-hooks clock seam inside SystemTime::format_time; the conversion and Display code are the real ones. Years outside 0000..9999 are compared in ISO 8601 expanded form."),
 "C05": dict(engine="h_reg", category="model_checking", design="§3 C05",
   technique="explicit-state BFS over span-lifecycle histories on a real Registry stack (fresh process per history, de-duplicated + no-dedup cross-check) + preemption-bounded exhaustive schedule exploration of the reference-count operations on real threads",
   text="All histories up to the stated depth over a forest of spans (create with contextual/explicit/no parent, clone, drop, enter, exit in any order incl. re-entry, Span::current captures, drops on either thread, thread default switched to another Registry stack or none) run on Registry + 2 recording layers; after every step the close notifications of both layers must equal a reference-count model (exactly once, at the step the last handle/entry/child goes, children first, data readable in on_close and equal to what was stored at creation, nothing stale in a reused slot, closed spans gone, live ids distinct, other registry untouched). Drop||drop, cascade||drop, exit||drop, clone||drop, capture||drop races are explored over every interleaving up to the preemption bound.",
   note="SC at hook granularity (points before/after each ref_count update, slot clear, create); Release/Acquire weakening is outside the model. Known findings F2 and F13 (exit / parent release go through dispatch::get_default) are attributed by trigger step; histories are not extended beyond a trigger."),
 "C06": dict(engine="h_reg", category="model_checking", design="§3 C06",
   technique="explicit-state BFS over per-thread enter/exit histories on a real Registry stack with ErrorSubscriber (fresh process per history, de-duplicated + no-dedup cross-check)",
   text="All histories up to the stated depth of enter/exit (incl. out-of-order exits, the same span entered on two threads), span creation and events with contextual/explicit/root parents, Span::current and SpanTrace captures on 1-2 real threads; at every step lookup_current/event_span/event_scope/span.scope()/from_root() seen inside layer callbacks, the registry's current span of every thread, the stored parent and scope of every live span and the chain yielded by every captured SpanTrace must equal a per-thread-stack + forest model.",
   note="Re-entering a span already entered on the same thread is excluded from the alphabet (as the property says). Threads are sequentially interleaved (the registry's current-span state is thread-local). C05's findings F2/F13 are not re-reported: histories are cut at their trigger steps."),
 "C01": dict(engine="h_core", category="model_checking", design="§3 C01",
   technique="explicit-state BFS over operation histories executed on the real code (fresh process per history, canonical-state de-duplication, warm non-initial roots) + preemption-bounded exhaustive schedule exploration of first-hit races",
   text="Every history up to the stated depth over {create collector with filter F, drop, install/uninstall as a thread default, set global, emit, enabled! probe, rebuild_interest_cache, flip a dynamic filter} is executed through the real macros in a fresh process; after every emission the recording collector's log must equal the verdict of a cache-free reference filter for the collector the implementation reports as current. States are merged on model state + the cached interest/registration byte of every callsite + LevelFilter::current() + per-thread default identity. First-hit races are explored under the controlled scheduler.",
   note="Assumes self-consistent filters (alphabet restriction) and SC at hook granularity for the race part. Depth/alphabet bounds are in the evidence; nothing beyond them is claimed."),
 "C02": dict(engine="h_core", category="model_checking", design="§3 C02",
   technique="explicit-state BFS over scope/global/emit histories on real threads (fresh process per history; de-duplicated, plus a no-dedup cross-check) + preemption-bounded exhaustive schedule exploration of the initialisation races",
   text="All histories up to the stated depth of set_default/with_default (incl. panicking closures) open/close, repeated set_global_default attempts, emissions and Dispatch::default() queries on 2-3 real threads are executed in fresh processes and compared step by step (and by end-of-history probes on every thread) with a per-thread-stack + one-shot-global reference model; set_global_default || set_global_default || emit and scope || unscoped-emit races are explored over every interleaving up to the preemption bound.",
   note="Scopes are properly nested (alphabet restriction). SC at hook granularity. F1 (stale thread-local `none`) was found by this check and repaired by a fix: commit; it is reported again if it returns."),
 "C04": dict(engine="h_core", category="model_checking", design="§3 C04",
   technique="stateless exhaustive schedule exploration with preemption bounding of real threads under a cooperative scheduler (fresh process per schedule)",
   text="For each scenario (first hit of the same/different callsites racing with Dispatch creation, drop, set_default, set_global_default, rebuild_interest_cache) every interleaving with at most the stated number of preemptions, at the granularity of each hooked atomic operation and lock acquisition, is executed on the real code; each schedule is judged during the race (no delivery to a rejecting collector; an emission after a completed installation is judged by that collector; no panic/deadlock/livelock) and at quiescence (every registered callsite offered to every live collector, exact deliveries, max level not too low).",
   note="SC at hook granularity; weak-memory reorderings and std RwLock writer-preference queueing are outside the model; collectors do not emit from register_callsite."),
 "C19": dict(engine="h_core", category="exploration", design="§3 C19",
   technique="exhaustive enumeration of a finite space (all operand pairs x operators, all spellings, all hint assignments; fresh process per MAX_LEVEL configuration)",
   text="Complete enumeration of the finite space the property quantifies over: every ordered pair of the 5 levels and 6 filters under every comparison operator, every conversion, every spelling (all case patterns, digits 0-99, noise on either side, truncations) and the MAX_LEVEL read-back for every 1- and 2-collector hint assignment, each compared with an integer rank table.",
   note="Trusted: the rank table as specification; Rust's derived integer comparisons. Spellings like '+1'/'01' are treated as unspecified. Known finding F10 (empty string accepted as ERROR) is reported as KNOWN-FINDING."),
}

NOT_YET = {}

def main():
    props = [json.loads(l) for l in open(os.path.join(ROOT, "properties.jsonl"))]
    checks, na = [], []
    for p in props:
        pid = p["id"]
        c = CHECKS.get(pid)
        if c is None:
            na.append({"property_id": pid, "reason": NOT_YET.get(pid, "check not built yet in this tree (work in progress; see DESIGN.md §3 for the planned model-checking design)")})
            continue
        checks.append({
            "property_id": pid,
            "quick_cmd": f"./check {pid} --tier quick",
            "thorough_cmd": f"./check {pid} --tier thorough",
            "evidence_file": f"/verif/evidence/{pid}.json",
            "replay_cmd_template": f"./check {pid} --replay {{path}}",
            "engine": c["engine"],
            "level_claimed": {"category": c["category"], "text": c["text"], "design_ref": c["design"]},
            "level_note": c["note"],
            "technique": c["technique"],
        })
    m = {
        "version": 1,
        "setup_cmd": "./setup.sh",
        "hooks": {
            "guard": "cargo feature `verif-hooks` (tracing-core, forwarded by tracing, tracing-subscriber, tracing-appender)",
            "enable": "harness crates under /verif/engine depend on /repo/<crate> by path with features=[\"verif-hooks\"]; ./check builds them with cargo build --release --offline",
            "baseline_off_cmd": "cd /repo && cargo nextest run --workspace --no-fail-fast --tool-config-file pb:/w/lib/nextest.toml --profile pb --test-threads 8 --offline",
            "source_commits": hooks_commits(),
            "add_only": True,
        },
        "engines": [
            {"name": "mc", "path": "engine/mc", "serves_properties": sorted(CHECKS), "kind_free_text": "library: fork pool (fresh process per execution), cooperative scheduler over real OS threads + stateless DFS with preemption bounding (Engine S), level-synchronous BFS over operation histories with canonical-state de-duplication (Engine H), evidence/verdict writer"},
        ] + [
            {"name": e, "path": f"engine/{e}", "serves_properties": sorted(k for k, v in CHECKS.items() if v["engine"] == e), "kind_free_text": "harness binary: drivers, recording collectors/layers, reference models and oracles"}
            for e in sorted({v["engine"] for v in CHECKS.values()})
        ],
        "checks": checks,
        "not_applicable": na,
        "notes": "All checks decide their property by exhaustive enumeration within stated bounds on the real code of /repo's working tree (model checking family). See DESIGN.md. known_findings.json lists genuine defects (open / fixed).",
    }
    json.dump(m, open(os.path.join(ROOT, "MANIFEST.json"), "w"), indent=1)
    print("claimed:", [c["property_id"] for c in checks], "n/a:", len(na))

main()
