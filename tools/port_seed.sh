#!/bin/bash
# usage: tools/port_seed.sh <orig patch.diff> <out patch.hooked.diff>
# Rebases a seeded change made against the pristine snapshot onto /repo's current HEAD (hooks + fixes).
set -u
src="$1"; out="$2"
cd /repo
git diff --quiet || { echo "/repo not clean"; exit 3; }
if git apply --check "$src" 2>/dev/null; then cp "$src" "$out"; echo "applies as is"; exit 0; fi
if patch -p1 -F3 -s --dry-run < "$src" >/dev/null 2>&1; then
  patch -p1 -F3 -s < "$src"; find . -name "*.orig" -not -path "./target/*" -delete 2>/dev/null; find . -name "*.rej" -not -path "./target/*" -delete 2>/dev/null; git diff > "$out"; git checkout -- .; echo "applied with fuzz"; exit 0; fi
# 3-way merge per file against the pristine base
base=$(git rev-list --max-parents=0 HEAD)
tmp=$(mktemp -d /tmp/port.XXXX)
ok=1
for f in $(grep '^+++ b/' "$src" | sed 's|^+++ b/||'); do
  mkdir -p "$tmp/base/$(dirname $f)"; git show "$base:$f" > "$tmp/base/$f"
done
( cd "$tmp/base" && patch -p1 -s -o /dev/null --dry-run < "$src" >/dev/null 2>&1 )
cp -r "$tmp/base" "$tmp/theirs"; ( cd "$tmp/theirs" && patch -p1 -s < "$src" ) || ok=0
for f in $(grep '^+++ b/' "$src" | sed 's|^+++ b/||'); do
  git merge-file -q "$f" "$tmp/base/$f" "$tmp/theirs/$f" || ok=0
done
if [ $ok = 1 ]; then git diff > "$out"; git checkout -- .; rm -rf "$tmp"; echo "merged 3-way"; exit 0; fi
git checkout -- .; rm -rf "$tmp"; echo "NEEDS MANUAL PORT"; exit 1
