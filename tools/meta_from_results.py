#!/usr/bin/env python3
"""Copies the outcome rows of seeded/RESULTS.md into seeded/<id>/meta.json (caught_by / not_caught_by)."""
import json, os, re, collections
root = os.path.dirname(os.path.dirname(os.path.abspath(__file__)))
rows = collections.defaultdict(list)
for line in open(os.path.join(root, "seeded/RESULTS.md")):
    m = re.match(r"\| (C\d+-[a-z]) \| (C\d+) \| (rc=\S+) \| (\S*) \| (.*) \|$", line.rstrip("\n"))
    if m:
        rows[m.group(1)].append(m.groups()[1:])
for sid, rs in rows.items():
    p = os.path.join(root, "seeded", sid, "meta.json")
    if not os.path.exists(p):
        continue
    d = json.load(open(p))
    d["caught_by"] = [{"check": c, "quick_exit": rc, "first_violation": first} for c, rc, n, first in rs if rc == "rc=1"]
    d["not_caught_by"] = [c for c, rc, n, first in rs if rc != "rc=1"]
    json.dump(d, open(p, "w"), indent=1)
print(len(rows), "changes")
