#!/usr/bin/env python3
"""Generates the #[instrument] twin corpus for C17: engine/h_attr/src/corpus.rs (+ corpus_big.rs).

Every case is a module with a plain function and the identical function carrying
#[tracing::instrument(...)], drivers that call either twin with freshly built drop-logging
arguments, and a static description of the span the attribute must produce.
"""
import itertools, os, sys

ROOT = os.path.dirname(os.path.dirname(os.path.abspath(__file__)))

KINDS = ["sync", "async", "boxpin", "boxpin_q", "boxpin_abs", "boxpin_old", "asyncblock"]
ASYNC_KINDS = KINDS[1:]

# ---- parameter sets -------------------------------------------------------------------------------
# name -> dict(generics, params (text), setup, args, fields [(name, kind, value)], reads, consumes, method)
def P(params, setup, args, fields, read="", consume=None, generics="", method=None, has_a_val=False, has_n=False, noref=True):
    return dict(params=params, setup=setup, args=args, fields=fields, read=read, consume=consume,
                generics=generics, method=method, has_a_val=has_a_val, has_n=has_n, noref=noref)

SEE_A = 'eff(&format!("see a={}", a.id()));'
PARAMS = {
    "none": P("", "", "", []),
    "tok": P("a: Tok", "let t1 = Tok::new(1);", "t1", [("a", "debug", "Tok(1.0)")], SEE_A, 'drop(a); eff("consumed a");', has_a_val=True),
    "mut_tok": P("mut a: Tok", "let t1 = Tok::new(1);", "t1", [("a", "debug", "Tok(1.0)")], "a.bump();", 'a.bump(); drop(a);', has_a_val=True),
    "ref": P("a: &Tok", "let t1 = Tok::new(1);", "&t1", [("a", "debug", "Tok(1.0)")], SEE_A, noref=False),
    "refmut": P("a: &mut Tok", "let mut t1 = Tok::new(1);", "&mut t1", [("a", "debug", "Tok(1.0)")], "a.bump();", noref=False),
    "tuple": P("(a, b): (Tok, Tok)", "let t1 = Tok::new(1); let t2 = Tok::new(2);", "(t1, t2)",
               [("a", "debug", "Tok(1.0)"), ("b", "debug", "Tok(2.0)")], SEE_A, 'drop(b); eff("consumed b");', has_a_val=True),
    "struct": P("Pair { x, y }: Pair", "let t1 = Tok::new(1); let t2 = Tok::new(2);", "Pair { x: t1, y: t2 }",
                [("x", "debug", "Tok(1.0)"), ("y", "debug", "Tok(2.0)")], 'eff(&format!("see x={}", x.id()));', 'drop(y); eff("consumed y");'),
    "tstruct": P("Wrap(a): Wrap", "let t1 = Tok::new(1);", "Wrap(t1)", [("a", "debug", "Tok(1.0)")], SEE_A, None, has_a_val=True),
    "generic": P("a: T", "let t1 = Tok::new(1);", "t1", [("a", "debug", "Tok(1.0)")], SEE_A, 'drop(a); eff("consumed a");',
                 generics="<T: std::fmt::Debug + HasId + 'static>"),
    "impl": P("a: impl std::fmt::Debug + HasId + 'static", "let t1 = Tok::new(1);", "t1", [("a", "debug", "Tok(1.0)")], SEE_A, 'drop(a); eff("consumed a");'),
    "prims": P("n: u32, s: &str, flag: bool", "", '5, "txt", true', [("n", "u64", "5"), ("s", "str", "txt"), ("flag", "bool", "true")],
               'eff(&format!("n={} s={} flag={}", n, s, flag));', has_n=True, noref=False),
    "owned": P("s: String, x: i64, f: f64", "", 'String::from("own"), -3, 1.5', [("s", "str", "own"), ("x", "i64", "-3"), ("f", "f64", "1.5")],
               'eff(&format!("s={} x={} f={}", s, x, f));', 'drop(s); eff("consumed s");'),
    "ints": P("a8: i8, b8: u8, c128: i128, d128: u128, e16: i16, nz: std::num::NonZeroU8", "", "-5, 200, i128::MIN, u128::MAX, -300, std::num::NonZeroU8::new(7).unwrap()",
              [("a8", "i64", "-5"), ("b8", "u64", "200"), ("c128", "i128", "-170141183460469231731687303715884105728"), ("d128", "u128", "340282366920938463463374607431768211455"), ("e16", "i64", "-300"), ("nz", "u64", "7")],
              'eff(&format!("a8={} b8={}", a8, b8));'),
    "ints2": P("u: usize, i: isize, h: u16, w: u64, x: f32, wr: std::num::Wrapping<u8>, r8: &i8", "", "9, -9, 65535, u64::MAX, 1.5, std::num::Wrapping(3), &-7",
               [("u", "u64", "9"), ("i", "i64", "-9"), ("h", "u64", "65535"), ("w", "u64", "18446744073709551615"), ("x", "f64", "1.5"), ("wr", "u64", "3"), ("r8", "i64", "-7")],
               'eff(&format!("u={} i={}", u, i));', noref=False),
    "ints3": P('p: i32, n1: std::num::NonZeroI8, n2: std::num::NonZeroU16, n3: std::num::NonZeroI16, n4: std::num::NonZeroU32, n5: std::num::NonZeroI32, n6: std::num::NonZeroU64, n7: std::num::NonZeroI64, n8: std::num::NonZeroU128, n9: std::num::NonZeroI128, n10: std::num::NonZeroUsize, n11: std::num::NonZeroIsize', "", '-32, std::num::NonZeroI8::new(-1).unwrap(), std::num::NonZeroU16::new(2).unwrap(), std::num::NonZeroI16::new(-3).unwrap(), std::num::NonZeroU32::new(4).unwrap(), std::num::NonZeroI32::new(-5).unwrap(), std::num::NonZeroU64::new(6).unwrap(), std::num::NonZeroI64::new(-7).unwrap(), std::num::NonZeroU128::new(8).unwrap(), std::num::NonZeroI128::new(-9).unwrap(), std::num::NonZeroUsize::new(10).unwrap(), std::num::NonZeroIsize::new(-11).unwrap()',
               [('p', 'i64', '-32'), ('n1', 'i64', '-1'), ('n2', 'u64', '2'), ('n3', 'i64', '-3'), ('n4', 'u64', '4'), ('n5', 'i64', '-5'), ('n6', 'u64', '6'), ('n7', 'i64', '-7'), ('n8', 'u128', '8'), ('n9', 'i128', '-9'), ('n10', 'u64', '10'), ('n11', 'i64', '-11')],
               'eff(&format!("p={}", p));'),
    "two": P("a: Tok, n: u32", "let t1 = Tok::new(1);", "t1, 5", [("a", "debug", "Tok(1.0)"), ("n", "u64", "5")], SEE_A,
             'drop(a); eff("consumed a");', has_a_val=True, has_n=True),
    "self_val": P("self, n: u32", "let recv = Recv { t: Tok::new(7) };", "5", [("self", "debug", "Recv { t: Tok(7.0) }"), ("n", "u64", "5")],
                  'eff(&format!("self.t={} n={}", self.t.id(), n));', 'drop(self); eff("consumed self");', method="recv", has_n=True),
    "self_ref": P("&self, n: u32", "let recv = Recv { t: Tok::new(7) };", "5", [("self", "debug", "Recv { t: Tok(7.0) }"), ("n", "u64", "5")],
                  'eff(&format!("self.t={} n={}", self.t.id(), n));', method="recv", has_n=True, noref=False),
    "self_mut": P("&mut self, n: u32", "let mut recv = Recv { t: Tok::new(7) };", "5", [("self", "debug", "Recv { t: Tok(7.0) }"), ("n", "u64", "5")],
                  'self.t.bump();', method="recv", has_n=True, noref=False),
}

# ---- return shapes --------------------------------------------------------------------------------------
# name -> (type or None, tail code, sels, is_result, display_ok)
SHAPES = {
    "unit": (None, 'eff("body:end");', [0], False, False),
    "val": ("u32", 'eff("body:end"); 40 + sel() as u32', [0], False, True),
    "tok": ("Tok", 'eff("body:end"); a', [0], False, True),
    "result_q": ("Result<u32, MyErr>", 'let v = fallible(sel())?; eff("after ?"); Ok(v + 1)', [0, 1], True, False),
    "result_ret": ("Result<u32, MyErr>", 'if sel() == 1 { eff("early err"); return Err(MyErr(3)); } eff("body:end"); Ok(8)', [0, 1], True, False),
    "early": ("u32", 'if sel() == 1 { eff("early"); return 7; } eff("late"); 9', [0, 1], False, True),
    "impl": ("impl std::fmt::Debug", 'eff("body:end"); (sel(), "x")', [0], False, False),
    "panic": ("u32", 'if sel() == 2 { eff("about to panic"); panic!("boom {}", sel()) } eff("body:end"); 3', [0, 2], False, True),
}

LEVELS = {'"trace"': "TRACE", '"debug"': "DEBUG", '"info"': "INFO", '"warn"': "WARN", '"error"': "ERROR",
          "tracing::Level::DEBUG": "DEBUG", "4": "WARN", "1": "TRACE", '"TRACE"': "TRACE"}

# ---- attribute features -------------------------------------------------------------------------------------
# each: (group, text, applicable(case) -> bool, apply(spec))
def feat(group, text, ok=lambda c: True, **mods):
    return dict(group=group, text=text, ok=ok, mods=mods)

FEATURES = [
    feat("name", 'name = "custom"', name="custom"),
    feat("name", 'name = "with space"', name="with space"),
] + [feat("level", "level = %s" % k, level=v) for k, v in LEVELS.items()] + [
    feat("target", 'target = "my::tgt"', target="my::tgt"),
    feat("parent", "parent = None", parent=1),
    feat("parent", "parent = &ctx_parent()", parent=2),
    feat("follows", "follows_from = [&ctx_cause()]", follows=1),
    feat("follows", "follows_from = &ctx_causes()", follows=2),
    feat("skip", "skip(a)", ok=lambda c: "a" in c["fieldnames"], skip=["a"]),
    feat("skip", "skip(n)", ok=lambda c: "n" in c["fieldnames"], skip=["n"]),
    feat("skip", "skip(self)", ok=lambda c: "self" in c["fieldnames"], skip=["self"]),
    feat("skip", "skip(x, y)", ok=lambda c: "y" in c["fieldnames"], skip=["x", "y"]),
    feat("skip", "skip()", skip=[]),
    feat("fields", "fields(extra = 1)", fields=[("extra", "i64", "1")]),
    feat("fields", 'fields(extra = "s", more = true)', fields=[("extra", "str", "s"), ("more", "bool", "true")]),
    feat("fields", "fields(x1 = n + 1)", ok=lambda c: c["has_n"], fields=[("x1", "u64", "6")]),
    feat("fields", "fields(dbg = ?n, disp = %n)", ok=lambda c: c["has_n"], fields=[("dbg", "debug", "5"), ("disp", "debug", "5")]),
    feat("fields", 'fields(a = "override")', ok=lambda c: "a" in c["fieldnames"], fields=[("a", "str", "override")], override=["a"]),
    feat("fields", "fields(n = n * 2)", ok=lambda c: c["has_n"], fields=[("n", "u64", "10")], override=["n"]),
    feat("fields", "fields(late = tracing::field::Empty)", fields=[("late", None, None)]),
    feat("fields", "fields(dotted.key = true)", fields=[("dotted.key", "bool", "true")]),
    feat("fields", "fields(tid = self.t.0)", ok=lambda c: "self" in c["fieldnames"], fields=[("tid", "u64", "7")]),
    feat("fields", "fields(aid = a.id())", ok=lambda c: c["has_a_id"], fields=[("aid", "u64", "1")]),
    feat("ret", "ret", ret=("SPAN", False)),
    feat("ret", "ret(Debug)", ret=("SPAN", False)),
    feat("ret", "ret(Display)", ok=lambda c: c["display_ok"] and not (c["is_result"] and not c["has_err"]), ret=("SPAN", True)),
    feat("ret", 'ret(level = "warn")', ret=("WARN", False)),
    feat("ret", 'ret(level = "trace", Display)', ok=lambda c: c["display_ok"] and not (c["is_result"] and not c["has_err"]), ret=("TRACE", True)),
    feat("err", "err", ok=lambda c: c["is_result"], err=("ERROR", True)),
    feat("err", "err(Debug)", ok=lambda c: c["is_result"], err=("ERROR", False)),
    feat("err", "err(Display)", ok=lambda c: c["is_result"], err=("ERROR", True)),
    feat("err", 'err(level = "info")', ok=lambda c: c["is_result"], err=("INFO", True)),
    feat("err", 'err(level = "debug", Debug)', ok=lambda c: c["is_result"], err=("DEBUG", False)),
]
GROUPS = ["name", "level", "target", "parent", "follows", "skip", "fields", "ret", "err"]


def rs(s):
    return '"' + s.replace("\\", "\\\\").replace('"', '\\"') + '"'


def applicable(kind, pset, shape):
    p = PARAMS[pset]
    if shape == "tok" and not p["has_a_val"]:
        return False
    if shape == "tok" and pset == "tstruct":
        return True
    if kind in ("boxpin", "boxpin_q", "boxpin_abs", "boxpin_old", "asyncblock"):
        if shape == "impl":
            return False
        if not p["noref"] and pset != "self_ref":
            return False
        if pset == "impl":
            return False
        if kind == "boxpin_old" and p["method"]:
            return False
    return True


def build_case(cid, kind, pset, shape, feats, usage, awaits, decor=0):
    p = PARAMS[pset]
    rty, tail, sels, is_result, display_ok = SHAPES[shape]
    fieldnames = [f[0] for f in p["fields"]]
    ctx = dict(fieldnames=fieldnames, has_n=p["has_n"], is_result=is_result, display_ok=display_ok,
               has_err=any(f["group"] == "err" for f in feats),
               has_a_id=("a" in fieldnames and pset not in ()))
    for f in feats:
        if not f["ok"](ctx):
            return None
    # spec
    name = "inst" if not p["method"] else "inst_%d" % cid
    spec = dict(name=name, level="INFO", target=None, parent=0, follows=0, ret=None, err=None)
    skip, skip_all, custom, override = [], False, [], []
    for f in feats:
        m = f["mods"]
        for k in ("name", "level", "target", "parent", "follows", "ret", "err"):
            if k in m:
                spec[k] = m[k]
        skip += m.get("skip", [])
        skip_all |= m.get("skip_all", False)
        custom += m.get("fields", [])
        override += m.get("override", [])
    declared, values = [], []
    for (n, k, v) in p["fields"]:
        if skip_all or n in skip or n in override:
            continue
        declared.append(n)
        values.append("%s:%s:%s" % (n, k, v))
    for (n, k, v) in custom:
        declared.append(n)
        if k is not None:
            values.append("%s:%s:%s" % (n, k, v))
    if spec["ret"] and spec["ret"][0] == "SPAN":
        spec["ret"] = (spec["level"], spec["ret"][1])
    # body
    use = ""
    consumed_a = False
    if usage == 1:
        use = p["read"]
    elif usage == 2 and p["consume"] and not (shape == "tok"):
        use = p["consume"]
    elif usage == 2:
        use = p["read"]
    is_async = kind != "sync"
    # decorations of the item that the attribute has to carry over unchanged (plain fn / async fn only)
    if kind not in ("sync", "async"):
        decor = 0
    if decor == 4 and (p["generics"] or pset in ("impl",)):
        decor = 1
    vis = "pub(crate)" if decor == 1 else "pub"
    extra_attrs = '#[inline]\n    #[doc = "documented"]\n    ' if decor == 1 else ""
    unsafety = "unsafe " if decor == 2 else ""
    where = " where u32: Copy" if decor == 3 else ""
    body = ['eff("body:start");']
    if decor == 4:
        body.append('eff(&format!("N={}", N));')
    if is_async and awaits >= 1:
        body.append("let _local = Tok::new(90);")
        body.append("yield_now().await;")
        body.append('eff("body:resumed");')
    body.append(use)
    if is_async and awaits >= 2:
        body.append("yield_now().await;")
        body.append('eff("body:resumed2");')
    body.append(tail)
    body = "\n        ".join(b for b in body if b)
    ret_decl = (" -> %s" % rty) if rty else ""
    out_ty = rty if rty else "()"
    attr = "#[tracing::instrument(%s)]" % ", ".join(f["text"] for f in feats) if feats else "#[tracing::instrument]"
    generics = p["generics"]
    if decor == 4:
        generics = "<const N: usize>"

    def fn(fname, attrline):
        params = p["params"]
        if kind == "sync":
            return "%s\n    %s%s %sfn %s%s(%s)%s%s {\n        %s\n    }" % (attrline, extra_attrs, vis, unsafety, fname, generics, params, ret_decl, where, body)
        if kind == "async":
            return "%s\n    %s%s async %sfn %s%s(%s)%s%s {\n        %s\n    }" % (attrline, extra_attrs, vis, unsafety, fname, generics, params, ret_decl, where, body)
        lt = ""
        g = generics
        bound = ""
        if pset == "self_ref":
            g = "<'x>"
            params_l = params.replace("&self", "&'x self")
            bound = " + 'x"
        else:
            params_l = params
        if kind in ("boxpin", "boxpin_q", "boxpin_abs"):
            path = {"boxpin": "Box::pin", "boxpin_q": "std::boxed::Box::pin", "boxpin_abs": "::std::boxed::Box::pin"}[kind]
            return ("%s\n    pub fn %s%s(%s) -> Pin<Box<dyn Future<Output = %s>%s>> {\n        eff(\"prelude\");\n        %s(async move {\n        %s\n        })\n    }"
                    % (attrline, fname, g, params_l, out_ty, bound, path, body))
        if kind == "asyncblock":
            return ("%s\n    pub fn %s%s(%s) -> impl Future<Output = %s>%s {\n        eff(\"prelude\");\n        async move {\n        %s\n        }\n    }"
                    % (attrline, fname, g, params_l, out_ty, bound, body))
        if kind == "boxpin_old":
            # the shape async-trait <= 0.1.43 generated: an inner async fn, immediately invoked
            argnames = ", ".join(n for n in _argnames(pset))
            return ("%s\n    pub fn %s%s(%s) -> Pin<Box<dyn Future<Output = %s>>> {\n        async fn inner%s(%s)%s {\n        %s\n        }\n        Box::pin(inner%s(%s))\n    }"
                    % (attrline, fname, g, params_l, out_ty, generics, params, ret_decl, body, "::<T>" if generics else "", argnames))
        raise SystemExit(kind)

    if p["method"]:
        twins = "impl Recv {\n    %s\n    %s\n}" % (fn("plain_%d" % cid, "#[allow(clippy::all)]"), fn("inst_%d" % cid, attr))
        tf = "::<3>" if decor == 4 else ""
        call_plain, call_inst = "recv.plain_%d%s(%s)" % (cid, tf, p["args"]), "recv.inst_%d%s(%s)" % (cid, tf, p["args"])
    else:
        twins = "    %s\n    %s" % (fn("plain", "#[allow(clippy::all)]"), fn("inst", attr))
        tf = "::<3>" if decor == 4 else ""
        call_plain, call_inst = "plain%s(%s)" % (tf, p["args"]), "inst%s(%s)" % (tf, p["args"])
    if decor == 2:
        call_plain, call_inst = "unsafe { %s }" % call_plain, "unsafe { %s }" % call_inst
    has_err = ctx["has_err"]
    outfn = "out_split" if (is_result and has_err) else ("out_disp" if (display_ok and not is_result) else "out_whole")

    def driver(which, call):
        if not is_async:
            return ("    pub fn run_%s() -> Out {\n        %s\n        mark(\"call\");\n        let r = %s;\n        mark(\"return\");\n        %s(&r)\n    }"
                    % (which, p["setup"], call, outfn))
        return ("    pub fn mk_%s() -> BoxFut {\n        Box::pin(async move {\n        %s\n        let r = %s.await;\n        %s(&r)\n        })\n    }"
                % (which, p["setup"], call, outfn))

    desc = "%s | params=%s | shape=%s | usage=%d awaits=%d decor=%s | %s" % (kind, pset, shape, usage, awaits, ["none", "attrs+pub(crate)", "unsafe", "where", "const-generic"][decor], attr)
    mod = ("#[allow(unused_variables, unused_mut, unreachable_code, clippy::all)]\npub mod c%d {\n    use crate::rt::*;\n    pub const MP: &str = module_path!();\n    #[allow(unused_imports)]\n    use std::{future::Future, pin::Pin};\n%s\n%s\n%s\n}\n"
           % (cid, twins, driver("plain", call_plain), driver("inst", call_inst)))
    ev = lambda e: "None" if e is None else "Some((%s, %s))" % (rs(e[0]), "true" if e[1] else "false")
    entry = ("Case { id: %d, desc: %s, is_async: %s, sels: &%s, span_name: %s, level: %s, target: %s, parent: %d, follows: %d, declared: &[%s], values: &[%s], ret: %s, err: %s, %s },"
             % (cid, rs(desc), "true" if is_async else "false", sels, rs(spec["name"]), rs(spec["level"]),
                (rs(spec["target"]) if spec["target"] else "c%d::MP" % cid), spec["parent"], spec["follows"], ", ".join(rs(d) for d in declared), ", ".join(rs(v) for v in values),
                ev(spec["ret"]), ev(spec["err"]),
                ("sync_plain: None, sync_inst: None, async_plain: Some(c%d::mk_plain), async_inst: Some(c%d::mk_inst)" % (cid, cid)) if is_async
                else ("sync_plain: Some(c%d::run_plain), sync_inst: Some(c%d::run_inst), async_plain: None, async_inst: None" % (cid, cid))))
    return mod, entry


def _argnames(pset):
    if pset not in ("none", "tok", "mut_tok", "tuple", "struct", "tstruct", "generic", "owned", "two", "ints"):
        # plain `name: type` parameter lists
        return [x.split(":")[0].strip() for x in PARAMS[pset]["params"].split(", ") if ":" in x]
    return {"none": [], "tok": ["a"], "mut_tok": ["a"], "tuple": ["(a, b)"], "struct": ["Pair { x, y }"], "tstruct": ["Wrap(a)"],
            "generic": ["a"], "owned": ["s", "x", "f"], "two": ["a", "n"], "ints": ["a8", "b8", "c128", "d128", "e16", "nz"]}[pset]


def plan(big):
    """Yields (kind, pset, shape, feats, usage, awaits)."""
    out = []
    seen = set()

    def add(kind, pset, shape, feats, usage, awaits):
        key = (kind, pset, shape, tuple(f["text"] for f in feats), usage, awaits if kind != "sync" else 0)
        if key in seen or not applicable(kind, pset, shape):
            return False
        seen.add(key)
        out.append((kind, pset, shape, feats, usage, awaits, len(out) % 5))
        return True

    psets, shapes = list(PARAMS), list(SHAPES)
    i = 0
    # 1. kind x shape x params, rotating one feature (or none)
    for kind in KINDS:
        for shape in shapes:
            for pset in psets:
                if not big and (hash_small(kind, shape, pset) % 3 != 0) and kind not in ("sync", "async"):
                    continue
                i += 1
                choices = [[]] + [[f] for f in FEATURES]
                for off in range(len(choices)):
                    feats = choices[(i * 7 + off) % len(choices)]
                    if try_ok(kind, pset, shape, feats):
                        add(kind, pset, shape, feats, i % 3, i % 3)
                        break
    # 2. every feature x kind, rotating params / shape
    for kind in KINDS:
        for fi, f in enumerate(FEATURES):
            for off in range(len(psets) * len(shapes)):
                j = fi * 5 + off
                pset, shape = psets[j % len(psets)], shapes[(j // len(psets) + fi) % len(shapes)]
                if applicable(kind, pset, shape) and try_ok(kind, pset, shape, [f]):
                    if add(kind, pset, shape, [f], (fi + 1) % 3, 1 + fi % 2):
                        break
    # 3. pairs of features of different groups
    reps = {}
    for f in FEATURES:
        reps.setdefault(f["group"], []).append(f)
    pair_kinds = KINDS if big else ["sync", "async", "boxpin"]
    k = 0
    for g1, g2 in itertools.combinations(GROUPS, 2):
        for kind in pair_kinds:
            combos = list(itertools.product(reps[g1], reps[g2]))
            take = combos if big else [combos[(k * 3) % len(combos)], combos[(k * 3 + 1) % len(combos)]]
            for (f1, f2) in take:
                k += 1
                for off in range(len(psets) * len(shapes)):
                    j = k + off
                    pset, shape = psets[j % len(psets)], shapes[(j // len(psets) + k) % len(shapes)]
                    if applicable(kind, pset, shape) and try_ok(kind, pset, shape, [f1, f2]):
                        if add(kind, pset, shape, [f1, f2], k % 3, 1 + k % 2):
                            break
    # 4. triples: ret + err + one more
    rets, errs = reps["ret"], reps["err"]
    others = [f for f in FEATURES if f["group"] not in ("ret", "err")]
    t = 0
    for kind in (KINDS if big else ["sync", "async"]):
        for r in rets:
            for e in errs:
                t += 1
                o = others[t % len(others)]
                for shape in ("result_q", "result_ret"):
                    for off in range(len(psets)):
                        pset = psets[(t + off) % len(psets)]
                        if applicable(kind, pset, shape) and try_ok(kind, pset, shape, [r, e, o]):
                            add(kind, pset, shape, [r, e, o], t % 3, 1 + t % 2)
                            break
    return out


def hash_small(*a):
    h = 0
    for s in a:
        for ch in s:
            h = (h * 131 + ord(ch)) % 1000003
    return h


def try_ok(kind, pset, shape, feats):
    if not applicable(kind, pset, shape):
        return False
    return build_case(0, kind, pset, shape, feats, 0, 0) is not None


def emit(cases, path, modname, start):
    mods, entries = [], []
    cid = start
    for c in cases:
        r = build_case(cid, *c)
        if r is None:
            continue
        mods.append(r[0].replace("CORPUS", modname))
        entries.append(r[1].replace("CORPUS", modname))
        cid += 1
    with open(path, "w") as f:
        f.write("// @generated by tools/gen_c17.py - do not edit\n#![allow(clippy::all)]\nuse crate::model::Case;\n\n")
        f.write("\n".join(mods))
        f.write("\npub fn cases() -> Vec<Case> {\n    vec![\n        ")
        f.write("\n        ".join(entries))
        f.write("\n    ]\n}\n")
    return cid


def main():
    small = plan(False)
    big = plan(True)
    small_keys = set((c[0], c[1], c[2], tuple(f["text"] for f in c[3]), c[4], c[5]) for c in small)
    extra = [c for c in big if (c[0], c[1], c[2], tuple(f["text"] for f in c[3]), c[4], c[5]) not in small_keys]
    d = os.path.join(ROOT, "engine", "h_attr", "src")
    n1 = emit(small, os.path.join(d, "corpus.rs"), "corpus", 1)
    n2 = emit(extra, os.path.join(d, "corpus_big.rs"), "corpus_big", n1)
    print("small:", n1 - 1, "big extra:", n2 - n1)


if __name__ == "__main__":
    main()
