#!/bin/bash
# usage: tools/seed_matrix.sh [Cxx-a ...]   — applies every kept seeded change to /repo in turn, runs the quick
# check of its property (and the extra checks listed in seeded/<id>/also), reverts, and writes seeded/RESULTS.md.
cd "$(dirname "$0")/.."
ids=("$@"); [ ${#ids[@]} -eq 0 ] && ids=($(ls seeded | grep -E '^C[0-9]+-[a-z]$' | sort))
out=seeded/RESULTS.md
tmp=$(mktemp)
for sid in "${ids[@]}"; do
  prop=${sid%-*}; var=${sid#*-}
  patch=seeded/tmp/$prop/$var/patch.hooked.diff
  [ -f "$patch" ] || patch=seeded/$sid/patch.hooked.diff
  [ -f "$patch" ] || patch=seeded/$sid/patch.diff
  checks="$prop"; [ -f seeded/$sid/also ] && checks="$checks $(cat seeded/$sid/also)"
  for c in $checks; do
    res=$(tools/try_seed.sh "$patch" "$c" quick 2>&1)
    rc=$(echo "$res" | grep -o 'rc=[0-9]*' | tail -1)
    first=$(echo "$res" | grep -m1 '^VIOLATION' | sed 's/^VIOLATION property=[A-Z0-9]* replay=[^ ]* :: //' | cut -c1-220 | tr '|' '/')
    n=$(echo "$res" | grep -o 'violations=[0-9]*' | tail -1)
    echo "| $sid | $c | ${rc:-rc=?} | ${n:-} | ${first:-$(echo "$res" | tail -1 | cut -c1-120)} |" | tee -a "$tmp"
  done
done
# a partial run keeps the rows of the changes that were not rerun
if [ $# -gt 0 ] && [ -f "$out" ]; then
  keep=$(mktemp)
  grep -E '^\| C[0-9]+-[a-z] ' "$out" | while IFS= read -r line; do
    sid=$(echo "$line" | cut -d'|' -f2 | tr -d ' ')
    grep -q "^| $sid " "$tmp" || echo "$line"
  done > "$keep"
  cat "$keep" "$tmp" | sort -s -t'|' -k2,2 > "$tmp.all"; mv "$tmp.all" "$tmp"; rm -f "$keep"
fi
{
  echo "# Seeded changes: which quick check reports which change"
  echo
  echo "Produced by tools/seed_matrix.sh (each change applied to /repo, check run, change reverted). rc=1 = VIOLATION reported."
  echo
  echo "| change | check | exit | count | first VIOLATION line |"
  echo "|---|---|---|---|---|"
  cat "$tmp"
} > "$out"
rm -f "$tmp"
