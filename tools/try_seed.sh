#!/bin/bash
# usage: tools/try_seed.sh <patch.diff> <Cxx> [tier]   — apply a seeded change to /repo, run the check, revert.
set -u
patch="$(realpath "$1")"; id="$2"; tier="${3:-quick}"
cd /repo
if ! git diff --quiet; then echo "/repo not clean"; exit 3; fi
if ! git apply "$patch" 2>/dev/null; then
  if ! git apply --3way "$patch" 2>/dev/null; then echo "PATCH DOES NOT APPLY"; git reset -q --hard HEAD; exit 3; fi
  git reset -q
fi
cd /verif
VERIF_ROOT_SAVE=1 ./check "$id" --tier "$tier" 2>&1 | grep -v "^  " | tail -8
rc=${PIPESTATUS[0]}
git -C /repo reset -q --hard HEAD
git -C /repo diff --quiet || echo "WARNING repo not clean after revert"
# restore evidence produced on the unchanged tree
git -C /verif checkout -- evidence 2>/dev/null
echo "rc=$rc"
