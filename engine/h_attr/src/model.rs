//! C17 driver: runs both twins of every corpus case under every collector configuration, input
//! and poll plan, and compares the instrumented twin with the plain twin plus the span model.
use crate::rt::{self, BoxFut, Filt, Out, Rec};
use serde::{Deserialize, Serialize};
use std::panic::{catch_unwind, AssertUnwindSafe};
use std::task::Poll;
use tracing::Level;

pub struct Case {
    pub id: u32,
    pub desc: &'static str,
    pub is_async: bool,
    pub sels: &'static [u8],
    pub span_name: &'static str,
    pub level: &'static str,
    pub target: &'static str,
    /// 0 contextual, 1 root, 2 explicit (ctx_parent)
    pub parent: u8,
    pub follows: u8,
    pub declared: &'static [&'static str],
    pub values: &'static [&'static str],
    /// (level, display?)
    pub ret: Option<(&'static str, bool)>,
    pub err: Option<(&'static str, bool)>,
    pub sync_plain: Option<fn() -> Out>,
    pub sync_inst: Option<fn() -> Out>,
    pub async_plain: Option<fn() -> BoxFut>,
    pub async_inst: Option<fn() -> BoxFut>,
}

#[derive(Clone, Copy, Debug, PartialEq, Eq, Serialize, Deserialize)]
pub enum Step {
    PollA,
    PollB,
    CancelA,
}

#[derive(Clone, Debug, Serialize, Deserialize)]
pub struct RunSpec {
    pub case: u32,
    pub sel: u8,
    pub filt: Option<Filt>,
    pub plan: Vec<Step>,
}

#[derive(Clone, Debug, PartialEq, Eq)]
pub struct RunLog {
    pub log: Vec<String>,
    pub outcome: Result<Out, String>,
    pub polls_a: usize,
}

fn level(s: &str) -> Level {
    s.parse().expect("level")
}

fn panic_msg(p: Box<dyn std::any::Any + Send>) -> String {
    if let Some(s) = p.downcast_ref::<&str>() {
        s.to_string()
    } else if let Some(s) = p.downcast_ref::<String>() {
        s.clone()
    } else {
        "<non-string panic payload>".into()
    }
}

pub fn run_twin(case: &Case, inst: bool, spec: &RunSpec) -> RunLog {
    rt::take_log();
    rt::set_sel(spec.sel);
    let body = || {
        let ctxs = vec![tracing::error_span!("ctx_parent"), tracing::error_span!("ctx_cause"), tracing::error_span!("ctx_cause2")];
        rt::set_ctx(ctxs);
        let outer = tracing::error_span!("outer");
        let g = outer.enter();
        rt::mark("begin");
        let mut polls_a = 0;
        let outcome = if !case.is_async {
            let f = if inst { case.sync_inst } else { case.sync_plain }.expect("sync twin");
            let r = catch_unwind(AssertUnwindSafe(f));
            match r {
                Ok(o) => Ok(o),
                Err(p) => {
                    rt::mark("unwound");
                    Err(panic_msg(p))
                }
            }
        } else {
            let mk = if inst { case.async_inst } else { case.async_plain }.expect("async twin");
            let mut a: Option<BoxFut> = Some(mk());
            let mut b: Option<std::pin::Pin<Box<dyn std::future::Future<Output = u32>>>> = Some(Box::pin(rt::other_b(1)));
            let mut outcome: Result<Out, String> = Err("<not finished>".into());
            for st in &spec.plan {
                match st {
                    Step::PollA => {
                        if let Some(f) = a.as_mut() {
                            rt::mark("poll A");
                            polls_a += 1;
                            match catch_unwind(AssertUnwindSafe(|| rt::poll_once(f))) {
                                Ok(Poll::Ready(o)) => {
                                    a = None;
                                    outcome = Ok(o);
                                    rt::mark("polled A ready");
                                }
                                Ok(Poll::Pending) => rt::mark("polled A pending"),
                                Err(p) => {
                                    a = None;
                                    outcome = Err(panic_msg(p));
                                    rt::mark("polled A unwound");
                                }
                            }
                        }
                    }
                    Step::PollB => {
                        if let Some(f) = b.as_mut() {
                            rt::mark("poll B");
                            if rt::poll_once(f).is_ready() {
                                b = None;
                            }
                            rt::mark("polled B");
                        }
                    }
                    Step::CancelA => {
                        if a.is_some() {
                            rt::mark("cancel A");
                            a = None;
                            outcome = Err("<cancelled>".into());
                            rt::mark("cancelled A");
                        }
                    }
                }
            }
            drop(a);
            drop(b);
            outcome
        };
        rt::mark("end");
        drop(g);
        drop(outer);
        rt::set_ctx(vec![]);
        (outcome, polls_a)
    };
    let (outcome, polls_a) = match spec.filt {
        None => body(),
        Some(f) => {
            let d = tracing::Dispatch::new(Rec::new(f));
            tracing::dispatch::with_default(&d, body)
        }
    };
    let mut log = rt::take_log();
    if let Some(p) = log.iter().position(|l| l == "H:end") {
        log.truncate(p + 1);
    }
    RunLog { log, outcome, polls_a }
}

/// The log the instrumented twin must produce, derived from the plain twin's log.
pub fn expected(case: &Case, filt: Option<Filt>, plain: &RunLog) -> Vec<String> {
    let Some(filt) = filt else { return plain.log.clone() };
    let span_on = filt.enables(&level(case.level));
    let name = case.span_name;
    let mut out = vec![];
    let mut created = false;
    let mut closed = false;
    let mut entered = false;
    let event = |out: &mut Vec<String>| {
        let o = match &plain.outcome {
            Ok(o) => o,
            Err(_) => return,
        };
        let mut emit = |lvl: &str, key: &str, val: &Option<String>| {
            if let Some(v) = val {
                if filt.enables(&level(lvl)) {
                    let within = if span_on {
                        name
                    } else if filt.enables(&Level::ERROR) {
                        "outer"
                    } else {
                        "none"
                    };
                    out.push(format!("C:event level={} target={} in={} fields=[{}:debug:{}]", lvl, case.target, within, key, v));
                }
            }
        };
        if let Some((lvl, disp)) = case.ret {
            emit(lvl, "return", if disp { &o.ret_disp } else { &o.ret_dbg });
        }
        if let Some((lvl, disp)) = case.err {
            emit(lvl, "error", if disp { &o.err_disp } else { &o.err_dbg });
        }
    };
    for line in &plain.log {
        match line.as_str() {
            "E:body:start" => {
                if span_on && !created {
                    let parent = match case.parent {
                        0 => "ctx(outer)".to_string(),
                        1 => "root".to_string(),
                        _ => "explicit(ctx_parent)".to_string(),
                    };
                    out.push(format!(
                        "C:new_span name={} level={} target={} parent={} declared=[{}] values=[{}]",
                        name,
                        case.level,
                        case.target,
                        parent,
                        case.declared.join(","),
                        case.values.join(", ")
                    ));
                    for k in 0..case.follows {
                        out.push(format!("C:follows span={} from={}", name, if k == 0 { "ctx_cause" } else { "ctx_cause2" }));
                    }
                    out.push(format!("C:enter {}", name));
                    created = true;
                    entered = true;
                }
                out.push(line.clone());
            }
            "H:return" => {
                event(&mut out);
                if entered {
                    out.push(format!("C:exit {}", name));
                    out.push(format!("C:close {}", name));
                    entered = false;
                    closed = true;
                }
                out.push(line.clone());
            }
            "H:unwound" => {
                if entered {
                    out.push(format!("C:exit {}", name));
                    out.push(format!("C:close {}", name));
                    entered = false;
                    closed = true;
                }
                out.push(line.clone());
            }
            "H:poll A" => {
                out.push(line.clone());
                if created && !closed {
                    out.push(format!("C:enter {}", name));
                    entered = true;
                }
            }
            "H:polled A pending" => {
                if entered {
                    out.push(format!("C:exit {}", name));
                    entered = false;
                }
                out.push(line.clone());
            }
            "H:polled A ready" | "H:polled A unwound" => {
                if line == "H:polled A ready" {
                    event(&mut out);
                }
                if entered {
                    out.push(format!("C:exit {}", name));
                    entered = false;
                }
                if created && !closed {
                    // the instrumented future is dropped inside its span
                    out.push(format!("C:enter {}", name));
                    out.push(format!("C:exit {}", name));
                    out.push(format!("C:close {}", name));
                    closed = true;
                }
                out.push(line.clone());
            }
            "H:cancelled A" => {
                if created && !closed {
                    out.push(format!("C:enter {}", name));
                    out.push(format!("C:exit {}", name));
                    out.push(format!("C:close {}", name));
                    closed = true;
                }
                out.push(line.clone());
            }
            _ => out.push(line.clone()),
        }
    }
    out
}

/// Drops whose place is not compared, only their number: every drop of an argument (the property
/// speaks of the number of drops; the async expansion captures otherwise unused arguments in the
/// future to record them as fields, which moves their drop from the call to the end of the
/// future), and drops of body locals after the body's last own effect. An explicit `drop(arg)`
/// in a corpus body is always followed by an effect of its own, which stays ordered.
fn floating_drops(plain: &[String]) -> Vec<String> {
    let last_effect = plain.iter().rposition(|l| l.starts_with("E:") && !l.starts_with("E:drop("));
    let is_arg = |l: &str| l.strip_prefix("E:drop(").and_then(|r| r.strip_suffix(')')).and_then(|n| n.parse::<u32>().ok()).map_or(false, |n| n < 90);
    plain
        .iter()
        .enumerate()
        .filter(|(i, l)| l.starts_with("E:drop(") && (is_arg(l) || last_effect.map_or(true, |e| *i > e)))
        .map(|(_, l)| l.clone())
        .collect()
}

/// true when the arguments were dropped at a different place than in the plain twin (reported in
/// the evidence, not a violation)
pub fn drop_placement_differs(plain: &[String], inst: &[String]) -> bool {
    let pos = |v: &[String]| -> Vec<(String, Option<String>)> {
        let eff: Vec<&String> = v.iter().filter(|l| l.starts_with("E:")).collect();
        eff.iter().enumerate().filter(|(_, l)| l.starts_with("E:drop(")).map(|(i, l)| ((*l).clone(), eff.get(i + 1).map(|x| (*x).clone()))).collect()
    };
    pos(plain) != pos(inst)
}

pub fn judge(case: &Case, spec: &RunSpec) -> Vec<String> {
    judge2(case, spec).0
}

pub fn judge2(case: &Case, spec: &RunSpec) -> (Vec<String>, bool, bool) {
    let plain = run_twin(case, false, spec);
    let inst = run_twin(case, true, spec);
    let moved = drop_placement_differs(&plain.log, &inst.log);
    let mut bad = vec![];
    if plain.outcome != inst.outcome {
        bad.push(format!("outcome differs: plain {:?}, instrumented {:?}", plain.outcome, inst.outcome));
    }
    let mut floating = floating_drops(&plain.log);
    let exp = expected(case, spec.filt, &plain);
    let strip = |v: &[String]| -> (Vec<String>, Vec<String>) {
        let mut rest = vec![];
        let mut drops = vec![];
        for l in v {
            if floating.contains(l) {
                drops.push(l.clone());
            } else {
                rest.push(l.clone());
            }
        }
        drops.sort();
        (rest, drops)
    };
    let (e_rest, _) = strip(&exp);
    let (i_rest, i_drops) = strip(&inst.log);
    floating.sort();
    if i_drops != floating {
        bad.push(format!("argument drops differ: plain {:?}, instrumented {:?}", floating, i_drops));
    }
    if e_rest != i_rest {
        let k = e_rest.iter().zip(i_rest.iter()).position(|(a, b)| a != b).unwrap_or(e_rest.len().min(i_rest.len()));
        bad.push(format!(
            "log differs at entry {}: expected {:?}, instrumented twin produced {:?} (expected log {:?}; actual log {:?})",
            k,
            e_rest.get(k),
            i_rest.get(k),
            e_rest,
            i_rest
        ));
    }
    (bad, moved, exp != plain.log)
}

/// all poll plans for a future that needs `n` polls: every interleaving with the two polls of
/// the other future, and cancellation after 0..n-1 polls
pub fn plans(n: usize, with_b: bool) -> Vec<Vec<Step>> {
    let mut out = vec![];
    if !with_b {
        out.push(vec![Step::PollA; n]);
    } else {
        fn rec(a: usize, b: usize, cur: &mut Vec<Step>, out: &mut Vec<Vec<Step>>) {
            if a == 0 && b == 0 {
                out.push(cur.clone());
                return;
            }
            if a > 0 {
                cur.push(Step::PollA);
                rec(a - 1, b, cur, out);
                cur.pop();
            }
            if b > 0 {
                cur.push(Step::PollB);
                rec(a, b - 1, cur, out);
                cur.pop();
            }
        }
        rec(n, 2, &mut vec![], &mut out);
    }
    for k in 0..n {
        let mut p = vec![Step::PollB];
        p.extend(std::iter::repeat(Step::PollA).take(k));
        p.push(Step::CancelA);
        p.push(Step::PollB);
        out.push(p);
    }
    out
}

pub const FILTS: [Option<Filt>; 7] =
    [None, Some(Filt::AllAlways), Some(Filt::AllSometimes), Some(Filt::NoneNever), Some(Filt::NoneSometimes), Some(Filt::WarnUp), Some(Filt::DebugUp)];

/// number of polls the plain twin needs to finish
pub fn polls_needed(case: &Case, sel: u8) -> usize {
    let spec = RunSpec { case: case.id, sel, filt: None, plan: vec![Step::PollA; 8] };
    run_twin(case, false, &spec).polls_a
}
