//! C17 — #[instrument] preserves behaviour exactly and adds one well-formed span per call.
use crate::model::{self, Case, RunSpec};
use mc::pool::{Outcome, Pool};
use mc::{Args, Report, Tier};
use serde::{Deserialize, Serialize};
use serde_json::json;
use std::time::Duration;

fn all_cases() -> Vec<Case> {
    #[allow(unused_mut)]
    let mut v = crate::corpus::cases();
    #[cfg(feature = "big")]
    v.extend(crate::corpus_big::cases());
    v
}

#[derive(Serialize, Deserialize, Default)]
struct Res {
    runs: u64,
    twins: u64,
    plans: u64,
    drops_moved: u64,
    nontrivial: u64,
    bad: Vec<(RunSpec, String, Vec<String>)>,
}

#[derive(Serialize, Deserialize)]
struct Job {
    ids: Vec<u32>,
    with_b: bool,
}

fn runner(job: &[u8]) -> Vec<u8> {
    let job: Job = serde_json::from_slice(job).unwrap();
    std::panic::set_hook(Box::new(|_| {}));
    let cases = all_cases();
    let mut res = Res::default();
    for id in job.ids {
        let case = cases.iter().find(|c| c.id == id).expect("case");
        res.twins += 1;
        for &sel in case.sels {
            let plans = if case.is_async { model::plans(model::polls_needed(case, sel), job.with_b) } else { vec![vec![]] };
            for plan in plans {
                res.plans += 1;
                for filt in model::FILTS {
                    let spec = RunSpec { case: id, sel, filt, plan: plan.clone() };
                    res.runs += 1;
                    let (bad, moved, nontrivial) = model::judge2(case, &spec);
                    res.nontrivial += u64::from(nontrivial);
                    res.drops_moved += u64::from(moved);
                    if !bad.is_empty() && res.bad.len() < 10 {
                        res.bad.push((spec, case.desc.to_string(), bad));
                    }
                }
            }
        }
    }
    serde_json::to_vec(&res).unwrap()
}

pub fn run(args: &Args) -> i32 {
    let mut rep = Report::new(args, "exploration");
    let cases = all_cases();
    if let Some(p) = &args.replay {
        let v: serde_json::Value = serde_json::from_str(&std::fs::read_to_string(p).expect("read replay")).expect("json");
        let spec: RunSpec = serde_json::from_value(v["case"]["run"].clone()).expect("run spec");
        std::panic::set_hook(Box::new(|_| {}));
        let Some(case) = cases.iter().find(|c| c.id == spec.case) else {
            eprintln!("case {} is not part of this corpus (a case of the thorough corpus needs --tier thorough)", spec.case);
            return 2;
        };
        println!("case {}: {}", case.id, case.desc);
        let bad = model::judge(case, &spec);
        for x in &bad {
            println!("VIOLATION property={} replay={} :: {}", args.property, p, x);
        }
        if bad.is_empty() {
            println!("replay: no violation");
        }
        return i32::from(!bad.is_empty());
    }
    if let Some(i) = args.extra.iter().position(|a| a == "--show") {
        let id: u32 = args.extra[i + 1].parse().unwrap();
        let case = cases.iter().find(|c| c.id == id).expect("case");
        println!("case {}: {}", case.id, case.desc);
        std::panic::set_hook(Box::new(|_| {}));
        for &sel in case.sels {
            let plans = if case.is_async { model::plans(model::polls_needed(case, sel), true) } else { vec![vec![]] };
            let plan = plans[plans.len() / 2].clone();
            for filt in [Some(crate::rt::Filt::AllAlways), Some(crate::rt::Filt::WarnUp)] {
                let spec = RunSpec { case: id, sel, filt, plan: plan.clone() };
                let inst = model::run_twin(case, true, &spec);
                println!("-- sel={} filt={:?} plan={:?} outcome={:?}", sel, filt, plan, inst.outcome);
                for l in &inst.log {
                    println!("   {}", l);
                }
            }
        }
        return 0;
    }
    let ids: Vec<u32> = cases.iter().map(|c| c.id).collect();
    let mut pool = Pool::new(mc::pool::default_workers(), runner, false, Duration::from_secs(1800));
    let mut tot = Res::default();
    let mut crashed = vec![];
    pool.run_list(ids.chunks(8).map(|c| serde_json::to_vec(&Job { ids: c.to_vec(), with_b: true }).unwrap()).collect(), |job, out| match out {
        Outcome::Ok(b) => {
            let r: Res = serde_json::from_slice(&b).unwrap();
            tot.runs += r.runs;
            tot.twins += r.twins;
            tot.plans += r.plans;
            tot.drops_moved += r.drops_moved;
            tot.nontrivial += r.nontrivial;
            tot.bad.extend(r.bad);
        }
        o => crashed.push(format!("{:?} on job {}", o, String::from_utf8_lossy(job))),
    });
    for c in crashed {
        rep.machinery_error(c);
    }
    tot.bad.sort_by_key(|(s, _, _)| (s.case, s.sel, s.plan.len()));
    // one report per case
    let mut seen = std::collections::BTreeSet::new();
    for (spec, desc, msgs) in &tot.bad {
        if seen.insert(spec.case) {
            rep.violation(format!("case {} [{}] sel={} filter={:?} plan={:?}: {}", spec.case, desc, spec.sel, spec.filt, spec.plan, msgs[0]), json!({"run": spec, "desc": desc}));
        }
    }
    let n_async = cases.iter().filter(|c| c.is_async).count();
    rep.cov("twin_functions", tot.twins);
    rep.cov("async_twins", n_async as u64);
    rep.cov("states", tot.plans);
    rep.cov("transitions", tot.runs);
    rep.cov("traces_validated_against_impl", tot.runs);
    rep.cov("differential_runs", tot.runs);
    rep.cov("evaluations", tot.runs);
    rep.cov("distinct_nontrivial", tot.nontrivial);
    rep.cov("exhaustive", true);
    rep.cov("rule", "generated corpus (tools/gen_c17.py): kind {fn, async fn, fn returning Box::pin / std::boxed::Box::pin / ::std::boxed::Box::pin of an async move block, the inner-async-fn shape of old async-trait, fn returning an async move block} x parameter set {none, by value, mut binding, &, &mut, destructured tuple / struct / tuple struct, generic, impl Trait, primitives recorded as values, owned String / i64 / f64, self / &self / &mut self} x return shape {unit, value, the moved argument, Result with ?, Result with early return Err, early return, impl Trait, panic} x attribute arguments {none, name, level in every spelling, target, parent = None / &span, follows_from, skip, fields (constants, expressions over arguments, overriding an argument, % and ? sigils, Empty, dotted names), ret / err with levels and Display / Debug} singly, in pairs of different groups and ret+err+one more; body usage {unused, read, consumed}, 0-2 await points and item decorations {none, extra attributes + pub(crate), unsafe fn, where clause, const generic} rotate. A run is one (twin pair, input selector, collector configuration, poll plan); it is non-trivial when the expected log differs from the plain twin's log, i.e. the attribute has to produce at least one span or event");
    rep.cov("runs_where_argument_drops_moved_relative_to_body_effects", tot.drops_moved);
    rep.cov("collector_configurations", model::FILTS.len() as u64);
    rep.cov("corpus", if cfg!(feature = "big") { "small + big (tools/gen_c17.py)" } else { "small (tools/gen_c17.py)" });
    if let Some(c) = cases.get(cases.len() / 2) {
        rep.sample(json!({"case": c.id, "desc": c.desc}));
    }
    let _ = args.tier == Tier::Quick;
    rep.cov("explanation", "every generated twin pair (plain function / identical function with #[instrument]) is run with every input selector (Ok / Err / early return / panic paths), under no collector and six recording collector configurations (accept-all with always / sometimes interest, reject-all with never / per-call, WARN-and-up, DEBUG-and-up); async twins under every interleaving of their polls with the two polls of another instrumented future and under cancellation after each number of polls. Return value or panic payload, the body's effect log and the number of drops of every argument must equal the plain twin's; the unified log of collector calls and body effects must equal the plain log with exactly the span model's new_span / follows_from / enter / exit / close / ret / err event lines inserted around the body");
    rep.assume("the place of an argument's drop relative to the body's effects is not compared, only the number of drops (counted in runs_where_argument_drops_moved_...); explicit drops in the body are followed by an effect that stays ordered");
    rep.finish()
}
