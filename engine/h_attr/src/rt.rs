//! Runtime shared by the generated #[instrument] corpus: effect-logging tokens, one unified
//! log that both the function bodies and the recording collector append to, a manual executor.
use std::cell::{Cell, RefCell};
use std::collections::HashMap;
use std::fmt;
use std::future::Future;
use std::pin::Pin;
use std::task::{Context, Poll, RawWaker, RawWakerVTable, Waker};
use tracing::span::{Attributes, Id, Record};
use tracing::{Event, Level, Metadata, Span};
use tracing_core::collect::Interest;
use tracing_core::field::{Field, Visit};
use tracing_core::span::Current;

thread_local! {
    pub static LOG: RefCell<Vec<String>> = const { RefCell::new(Vec::new()) };
    static SEL: Cell<u8> = const { Cell::new(0) };
    static CTX: RefCell<Vec<Span>> = const { RefCell::new(Vec::new()) };
}

pub fn log(s: String) {
    LOG.with(|l| l.borrow_mut().push(s));
}
pub fn take_log() -> Vec<String> {
    LOG.with(|l| std::mem::take(&mut *l.borrow_mut()))
}
/// body effect
pub fn eff(s: &str) {
    log(format!("E:{}", s));
}
pub fn mark(s: &str) {
    log(format!("H:{}", s));
}
pub fn sel() -> u8 {
    SEL.with(|s| s.get())
}
pub fn set_sel(v: u8) {
    SEL.with(|s| s.set(v));
}
pub fn set_ctx(v: Vec<Span>) {
    CTX.with(|c| *c.borrow_mut() = v);
}
/// the span the harness created as explicit parent for `parent = ..` cases
pub fn ctx_parent() -> Span {
    CTX.with(|c| c.borrow().first().cloned().unwrap_or_else(Span::none))
}
pub fn ctx_cause() -> Span {
    CTX.with(|c| c.borrow().get(1).cloned().unwrap_or_else(Span::none))
}
pub fn ctx_causes() -> Vec<Span> {
    CTX.with(|c| c.borrow().iter().skip(1).cloned().collect())
}

// ---- tokens -----------------------------------------------------------------------------------------------------

pub trait HasId {
    fn id(&self) -> u32;
}

pub struct Tok(pub u32, pub u32);
impl Tok {
    pub fn new(id: u32) -> Tok {
        Tok(id, 0)
    }
    pub fn bump(&mut self) {
        self.1 += 1;
        eff(&format!("bump({})={}", self.0, self.1));
    }
}
impl HasId for Tok {
    fn id(&self) -> u32 {
        self.0
    }
}
impl HasId for &Tok {
    fn id(&self) -> u32 {
        self.0
    }
}
impl Drop for Tok {
    fn drop(&mut self) {
        log(format!("E:drop({})", self.0));
    }
}
impl fmt::Debug for Tok {
    fn fmt(&self, f: &mut fmt::Formatter<'_>) -> fmt::Result {
        write!(f, "Tok({}.{})", self.0, self.1)
    }
}
impl fmt::Display for Tok {
    fn fmt(&self, f: &mut fmt::Formatter<'_>) -> fmt::Result {
        write!(f, "tok#{}", self.0)
    }
}

#[derive(Debug)]
pub struct Pair {
    pub x: Tok,
    pub y: Tok,
}
#[derive(Debug)]
pub struct Wrap(pub Tok);

#[derive(Debug)]
pub struct Recv {
    pub t: Tok,
}

pub struct MyErr(pub u32);
impl fmt::Debug for MyErr {
    fn fmt(&self, f: &mut fmt::Formatter<'_>) -> fmt::Result {
        write!(f, "MyErr<{}>", self.0)
    }
}
impl fmt::Display for MyErr {
    fn fmt(&self, f: &mut fmt::Formatter<'_>) -> fmt::Result {
        write!(f, "my error {}", self.0)
    }
}

pub fn fallible(s: u8) -> Result<u32, MyErr> {
    eff("fallible");
    if s == 1 {
        Err(MyErr(11))
    } else {
        Ok(21)
    }
}

// ---- futures ------------------------------------------------------------------------------------------------------

pub struct YieldNow(bool);
pub fn yield_now() -> YieldNow {
    YieldNow(false)
}
impl Future for YieldNow {
    type Output = ();
    fn poll(mut self: Pin<&mut Self>, _: &mut Context<'_>) -> Poll<()> {
        if self.0 {
            Poll::Ready(())
        } else {
            self.0 = true;
            Poll::Pending
        }
    }
}

pub type BoxFut = Pin<Box<dyn Future<Output = Out>>>;

fn noop_waker() -> Waker {
    fn clone(_: *const ()) -> RawWaker {
        RawWaker::new(std::ptr::null(), &VT)
    }
    fn noop(_: *const ()) {}
    static VT: RawWakerVTable = RawWakerVTable::new(clone, noop, noop, noop);
    unsafe { Waker::from_raw(RawWaker::new(std::ptr::null(), &VT)) }
}

pub fn poll_once<T>(f: &mut Pin<Box<dyn Future<Output = T>>>) -> Poll<T> {
    let w = noop_waker();
    let mut cx = Context::from_waker(&w);
    f.as_mut().poll(&mut cx)
}

/// What a twin's driver reports about the call's result (strings, so twins can be compared).
#[derive(Clone, Debug, Default, PartialEq, Eq, serde::Serialize, serde::Deserialize)]
pub struct Out {
    /// Debug of the returned value
    pub dbg: String,
    /// value the `ret` event must carry (Debug / Display), when the call returned one
    pub ret_dbg: Option<String>,
    pub ret_disp: Option<String>,
    /// value the `err` event must carry
    pub err_dbg: Option<String>,
    pub err_disp: Option<String>,
}

/// a second, fixed instrumented future that is polled interleaved with the one under test
#[tracing::instrument(level = "error", name = "other_b")]
pub async fn other_b(k: u32) -> u32 {
    log("B:start".to_string());
    yield_now().await;
    log("B:end".to_string());
    k + 1
}

// ---- recording collector ------------------------------------------------------------------------------------------

#[derive(Clone, Copy, Debug, PartialEq, Eq, serde::Serialize, serde::Deserialize)]
pub enum Filt {
    /// everything enabled, callsites registered as `always`
    AllAlways,
    /// everything enabled, callsites registered as `sometimes`
    AllSometimes,
    /// nothing enabled, callsites registered as `never`
    NoneNever,
    /// nothing enabled, decided per call by `enabled`
    NoneSometimes,
    /// only WARN and ERROR enabled
    WarnUp,
    /// only DEBUG and more severe
    DebugUp,
}

impl Filt {
    pub fn enables(self, l: &Level) -> bool {
        match self {
            Filt::AllAlways | Filt::AllSometimes => true,
            Filt::NoneNever | Filt::NoneSometimes => false,
            Filt::WarnUp => *l <= Level::WARN,
            Filt::DebugUp => *l <= Level::DEBUG,
        }
    }
}

pub struct Rec {
    pub filt: Filt,
    st: std::sync::Mutex<RecSt>,
}

#[derive(Default)]
struct RecSt {
    next: u64,
    names: HashMap<u64, String>,
    refs: HashMap<u64, usize>,
    stack: Vec<u64>,
}

struct V(Vec<String>);
impl Visit for V {
    fn record_u64(&mut self, f: &Field, v: u64) {
        self.0.push(format!("{}:u64:{}", f.name(), v));
    }
    fn record_i64(&mut self, f: &Field, v: i64) {
        self.0.push(format!("{}:i64:{}", f.name(), v));
    }
    fn record_u128(&mut self, f: &Field, v: u128) {
        self.0.push(format!("{}:u128:{}", f.name(), v));
    }
    fn record_i128(&mut self, f: &Field, v: i128) {
        self.0.push(format!("{}:i128:{}", f.name(), v));
    }
    fn record_f64(&mut self, f: &Field, v: f64) {
        self.0.push(format!("{}:f64:{}", f.name(), v));
    }
    fn record_bool(&mut self, f: &Field, v: bool) {
        self.0.push(format!("{}:bool:{}", f.name(), v));
    }
    fn record_str(&mut self, f: &Field, v: &str) {
        self.0.push(format!("{}:str:{}", f.name(), v));
    }
    fn record_error(&mut self, f: &Field, v: &(dyn std::error::Error + 'static)) {
        self.0.push(format!("{}:error:{}", f.name(), v));
    }
    fn record_debug(&mut self, f: &Field, v: &dyn fmt::Debug) {
        self.0.push(format!("{}:debug:{:?}", f.name(), v));
    }
}

impl Rec {
    pub fn new(filt: Filt) -> Rec {
        Rec { filt, st: Default::default() }
    }
    fn name(&self, id: &Id) -> String {
        self.st.lock().unwrap().names.get(&id.into_u64()).cloned().unwrap_or_else(|| format!("?{}", id.into_u64()))
    }
}

impl tracing_core::Collect for Rec {
    fn register_callsite(&self, m: &'static Metadata<'static>) -> Interest {
        match self.filt {
            Filt::AllAlways => Interest::always(),
            Filt::NoneNever => Interest::never(),
            Filt::WarnUp => {
                if self.filt.enables(m.level()) {
                    Interest::always()
                } else {
                    Interest::never()
                }
            }
            _ => Interest::sometimes(),
        }
    }
    fn enabled(&self, m: &Metadata<'_>) -> bool {
        self.filt.enables(m.level())
    }
    fn new_span(&self, a: &Attributes<'_>) -> Id {
        let mut v = V(vec![]);
        a.record(&mut v);
        let m = a.metadata();
        let mut st = self.st.lock().unwrap();
        st.next += 1;
        let id = st.next;
        let parent = if a.is_root() {
            "root".to_string()
        } else if let Some(p) = a.parent() {
            format!("explicit({})", st.names.get(&p.into_u64()).cloned().unwrap_or_default())
        } else {
            format!("ctx({})", st.stack.last().and_then(|i| st.names.get(i)).cloned().unwrap_or_else(|| "none".into()))
        };
        st.names.insert(id, m.name().to_string());
        st.refs.insert(id, 1);
        drop(st);
        let declared: Vec<&str> = m.fields().iter().map(|f| f.name()).collect();
        log(format!("C:new_span name={} level={} target={} parent={} declared=[{}] values=[{}]", m.name(), m.level(), m.target(), parent, declared.join(","), v.0.join(", ")));
        Id::from_u64(id)
    }
    fn record(&self, id: &Id, r: &Record<'_>) {
        let mut v = V(vec![]);
        r.record(&mut v);
        log(format!("C:record span={} values=[{}]", self.name(id), v.0.join(", ")));
    }
    fn record_follows_from(&self, id: &Id, f: &Id) {
        log(format!("C:follows span={} from={}", self.name(id), self.name(f)));
    }
    fn event(&self, e: &Event<'_>) {
        let mut v = V(vec![]);
        e.record(&mut v);
        let m = e.metadata();
        let st = self.st.lock().unwrap();
        let within = if e.is_root() {
            "root".to_string()
        } else if let Some(p) = e.parent() {
            format!("explicit({})", st.names.get(&p.into_u64()).cloned().unwrap_or_default())
        } else {
            st.stack.last().and_then(|i| st.names.get(i)).cloned().unwrap_or_else(|| "none".into())
        };
        drop(st);
        log(format!("C:event level={} target={} in={} fields=[{}]", m.level(), m.target(), within, v.0.join(", ")));
    }
    fn enter(&self, id: &Id) {
        self.st.lock().unwrap().stack.push(id.into_u64());
        log(format!("C:enter {}", self.name(id)));
    }
    fn exit(&self, id: &Id) {
        let mut st = self.st.lock().unwrap();
        if let Some(p) = st.stack.iter().rposition(|i| *i == id.into_u64()) {
            st.stack.remove(p);
        }
        drop(st);
        log(format!("C:exit {}", self.name(id)));
    }
    fn clone_span(&self, id: &Id) -> Id {
        *self.st.lock().unwrap().refs.entry(id.into_u64()).or_insert(0) += 1;
        id.clone()
    }
    fn try_close(&self, id: Id) -> bool {
        let mut st = self.st.lock().unwrap();
        let r = st.refs.entry(id.into_u64()).or_insert(1);
        *r -= 1;
        let closed = *r == 0;
        drop(st);
        if closed {
            log(format!("C:close {}", self.name(&id)));
        }
        closed
    }
    fn current_span(&self) -> Current {
        Current::unknown()
    }
}

// ---- result reporting used by the generated drivers ---------------------------------------------------------------

pub fn out_whole<T: fmt::Debug>(r: &T) -> Out {
    let dbg = format!("{:?}", r);
    Out { ret_dbg: Some(dbg.clone()), dbg, ..Default::default() }
}
pub fn out_disp<T: fmt::Debug + fmt::Display>(r: &T) -> Out {
    let dbg = format!("{:?}", r);
    Out { ret_dbg: Some(dbg.clone()), ret_disp: Some(format!("{}", r)), dbg, ..Default::default() }
}
pub fn out_split<T: fmt::Debug + fmt::Display, E: fmt::Debug + fmt::Display>(r: &Result<T, E>) -> Out {
    let dbg = format!("{:?}", r);
    match r {
        Ok(x) => Out { dbg, ret_dbg: Some(format!("{:?}", x)), ret_disp: Some(format!("{}", x)), ..Default::default() },
        Err(e) => Out { dbg, err_dbg: Some(format!("{:?}", e)), err_disp: Some(format!("{}", e)), ..Default::default() },
    }
}
