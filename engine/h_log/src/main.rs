//! Harness for C18 (log <-> tracing interoperation). Built with tracing's `log` feature.
mod c18;

fn main() {
    let args = mc::parse_args();
    let code = match args.property.as_str() {
        "C18" => c18::run(&args),
        p => {
            eprintln!("h_log: unknown property {}", p);
            2
        }
    };
    std::process::exit(code);
}
