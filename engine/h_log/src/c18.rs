//! C18 — log and tracing interoperate without losing, inventing or mislabelling records.
//! (A1) log -> tracing: every record of a finite grammar through LogTracer under every builder
//!      configuration (fresh process each: the logger can be set once) x every collector filter;
//! (A2) tracing -> log: a fixed program of event / span lifecycle steps with the position and
//!      kind of the first collector installation enumerated (fresh process each);
//! (A3) the level conversions, completely.
use mc::pool::{Outcome, Pool};
use mc::{Args, Report, Tier};
use serde::{Deserialize, Serialize};
use serde_json::json;
use std::sync::{Arc, Mutex};
use std::time::Duration;
use tracing_core::{span, Event, LevelFilter, Metadata};
use tracing_log::{AsLog, AsTrace, NormalizeEvent};

// ---- (A1) log -> tracing -------------------------------------------------------------------------------------------

const IGNORE_POOL: [&str; 6] = ["a", "aa", "ab", "a::b", "ign", "z"];
const TARGETS: [&str; 16] = ["a", "aa", "ab", "aab", "abc", "a::b", "a::b::c", "a::c", "b", "ign", "ign::deep", "igm", "ignx", "z", "", "ünï::cødé"];
const MESSAGES: [&str; 4] = ["", "plain message", "braces {} and \"quotes\"", "multi\nline ünï"];
const LOG_LEVELS: [log::Level; 5] = [log::Level::Error, log::Level::Warn, log::Level::Info, log::Level::Debug, log::Level::Trace];

#[derive(Clone, Debug, Serialize, Deserialize)]
pub struct A1Job {
    pub ignore: Vec<String>,
    /// LogTracer max level: 0 = Off .. 5 = Trace, 6 = builder default
    pub max: u8,
    /// install the (single) collector configuration globally instead of scoping each one
    pub global: Option<(u8, u8, bool)>,
    pub reverse: bool,
    pub thorough: bool,
    /// how the logger is installed: 0 builder with ignore_crate, 1 LogTracer::init / init_with_filter
    /// (no ignore list), 2 builder with ignore_all, 3 LogTracer::new() handed to log::set_boxed_logger
    #[serde(default)]
    pub via: u8,
}

fn log_filter(n: u8) -> log::LevelFilter {
    [log::LevelFilter::Off, log::LevelFilter::Error, log::LevelFilter::Warn, log::LevelFilter::Info, log::LevelFilter::Debug, log::LevelFilter::Trace][n as usize]
}
fn trace_filter(n: u8) -> LevelFilter {
    [LevelFilter::OFF, LevelFilter::ERROR, LevelFilter::WARN, LevelFilter::INFO, LevelFilter::DEBUG, LevelFilter::TRACE][n as usize]
}

/// target rule: 0 any, 1 starts with "a", 2 exactly "a::b", 3 none
fn target_rule(rule: u8, t: &str) -> bool {
    match rule {
        0 => true,
        1 => t.starts_with('a'),
        2 => t == "a::b",
        _ => false,
    }
}

#[derive(Clone, Debug, PartialEq, Eq, Serialize, Deserialize)]
pub struct Seen {
    is_log: bool,
    raw_target: String,
    target: String,
    level: String,
    file: Option<String>,
    line: Option<u32>,
    module: Option<String>,
    message: Option<String>,
}

struct Coll {
    thr: u8,
    rule: u8,
    hint: bool,
    seen: Arc<Mutex<Vec<Seen>>>,
}

struct MsgV(Option<String>);
impl tracing_core::field::Visit for MsgV {
    fn record_debug(&mut self, f: &tracing_core::field::Field, v: &dyn std::fmt::Debug) {
        if f.name() == "message" {
            self.0 = Some(format!("{:?}", v));
        }
    }
}

impl tracing_core::Collect for Coll {
    fn enabled(&self, m: &Metadata<'_>) -> bool {
        *m.level() <= trace_filter(self.thr) && target_rule(self.rule, m.target())
    }
    fn max_level_hint(&self) -> Option<LevelFilter> {
        if self.hint {
            Some(trace_filter(self.thr))
        } else {
            None
        }
    }
    fn new_span(&self, _: &span::Attributes<'_>) -> span::Id {
        span::Id::from_u64(1)
    }
    fn record(&self, _: &span::Id, _: &span::Record<'_>) {}
    fn record_follows_from(&self, _: &span::Id, _: &span::Id) {}
    fn event(&self, e: &Event<'_>) {
        let mut mv = MsgV(None);
        e.record(&mut mv);
        let norm = e.normalized_metadata();
        let m = norm.as_ref().unwrap_or_else(|| e.metadata());
        self.seen.lock().unwrap().push(Seen {
            is_log: e.is_log(),
            raw_target: e.metadata().target().to_string(),
            target: m.target().to_string(),
            level: m.level().to_string(),
            file: m.file().map(String::from),
            line: m.line(),
            module: m.module_path().map(String::from),
            message: mv.0,
        });
    }
    fn enter(&self, _: &span::Id) {}
    fn exit(&self, _: &span::Id) {}
    fn current_span(&self) -> tracing_core::span::Current {
        tracing_core::span::Current::unknown()
    }
}

#[derive(Serialize, Deserialize, Default)]
struct A1Res {
    records: u64,
    delivered: u64,
    collectors: u64,
    bad: Vec<(serde_json::Value, String)>,
}

fn a1_records(job: &A1Job, thr: u8, rule: u8, hint: bool, seen: &Arc<Mutex<Vec<Seen>>>, res: &mut A1Res) {
    let logger = log::logger();
    let locs: &[(Option<&str>, Option<u32>, Option<&str>)] = if job.thorough {
        &[(None, None, None), (Some("src/f.rs"), None, None), (None, Some(7), None), (None, None, Some("m::p")), (Some("src/f.rs"), Some(0), Some("m::p")), (Some(""), Some(u32::MAX), Some("")), (Some("ü.rs"), Some(42), None), (None, Some(9), Some("m"))]
    } else {
        &[(None, None, None), (Some("src/f.rs"), Some(7), Some("m::p")), (Some(""), Some(u32::MAX), None)]
    };
    for lvl in LOG_LEVELS {
        for t in TARGETS {
            for (mi, msg) in MESSAGES.iter().enumerate() {
                for (li, (file, line, module)) in locs.iter().enumerate() {
                    if !job.thorough && (mi + li) % 2 == 1 {
                        continue;
                    }
                    seen.lock().unwrap().clear();
                    let passes_max = lvl <= log::max_level();
                    // what the `log!` macros do
                    let meta = log::Metadata::builder().level(lvl).target(t).build();
                    let said_enabled = logger.enabled(&meta);
                    if passes_max {
                        logger.log(&log::Record::builder().metadata(meta.clone()).args(format_args!("{}", msg)).file(*file).line(*line).module_path(*module).build());
                    }
                    res.records += 1;
                    let ignored = job.ignore.iter().any(|p| t.starts_with(p.as_str()));
                    let accepts = lvl.as_trace() <= trace_filter(thr) && target_rule(rule, t);
                    let expect = passes_max && !ignored && accepts;
                    let got = seen.lock().unwrap().clone();
                    let case = || json!({"a1": job, "collector": {"threshold": thr, "target_rule": rule, "hint": hint}, "record": {"level": lvl.to_string(), "target": t, "message": msg, "file": file, "line": line, "module": module}});
                    let mut fail = |m: String| {
                        if res.bad.len() < 10 {
                            res.bad.push((case(), m));
                        }
                    };
                    if said_enabled != (!ignored && accepts) {
                        fail(format!("Log::enabled said {} for a {} record with target {:?}; the collector {} it and it is {}on the ignore list", said_enabled, lvl, t, if accepts { "accepts" } else { "rejects" }, if ignored { "" } else { "not " }));
                    }
                    if got.len() != usize::from(expect) {
                        fail(format!("{} tracing event(s) for a {} record with target {:?} (max level passes: {}, ignored: {}, collector accepts level+target: {}); expected {}", got.len(), lvl, t, passes_max, ignored, accepts, usize::from(expect)));
                        continue;
                    }
                    // the other public entry point: format_trace (used by custom loggers) consults
                    // only the collector
                    if li == 0 {
                        seen.lock().unwrap().clear();
                        let _ = tracing_log::format_trace(&log::Record::builder().metadata(meta.clone()).args(format_args!("{}", msg)).file(*file).line(*line).module_path(*module).build());
                        let n = seen.lock().unwrap().len();
                        res.records += 1;
                        if n != usize::from(accepts) {
                            fail(format!("format_trace produced {} event(s) for a {} record with target {:?}; the collector {} its level and target", n, lvl, t, if accepts { "accepts" } else { "rejects" }));
                        }
                    }
                    if let Some(e) = got.first() {
                        res.delivered += 1;
                        let want = Seen {
                            is_log: true,
                            raw_target: "log".into(),
                            target: t.to_string(),
                            level: lvl.as_trace().to_string(),
                            file: file.map(String::from),
                            line: *line,
                            module: module.map(String::from),
                            message: Some(msg.to_string()),
                        };
                        if *e != want {
                            fail(format!("the event carries {:?}; the record was {:?}", e, want));
                        }
                    }
                }
            }
        }
    }
}

fn run_a1(job: &A1Job) -> A1Res {
    let mut res = A1Res::default();
    let installed = match job.via {
        1 => {
            if job.max < 6 {
                tracing_log::LogTracer::init_with_filter(log_filter(job.max))
            } else {
                tracing_log::LogTracer::init()
            }
        }
        3 => log::set_boxed_logger(Box::new(tracing_log::LogTracer::new())).map(|()| log::set_max_level(if job.max < 6 { log_filter(job.max) } else { log::LevelFilter::max() })),
        v => {
            let mut b = tracing_log::LogTracer::builder();
            if job.max < 6 {
                b = b.with_max_level(log_filter(job.max));
            }
            if v == 2 {
                b = b.ignore_all(job.ignore.iter().cloned());
            } else {
                for i in &job.ignore {
                    b = b.ignore_crate(i.clone());
                }
            }
            b.init()
        }
    };
    if let Err(e) = installed {
        res.bad.push((json!({"a1": job}), format!("LogTracer::init failed: {}", e)));
        return res;
    }
    let seen = Arc::new(Mutex::new(vec![]));
    if let Some((thr, rule, hint)) = job.global {
        // before any collector exists nothing may be delivered
        a1_none(job, &seen, &mut res);
        let d = tracing_core::Dispatch::new(Coll { thr, rule, hint, seen: seen.clone() });
        tracing_core::dispatch::set_global_default(d).expect("global default");
        res.collectors += 1;
        a1_records(job, thr, rule, hint, &seen, &mut res);
        return res;
    }
    a1_none(job, &seen, &mut res);
    let mut cfgs = vec![];
    for thr in 0..6u8 {
        for rule in 0..4u8 {
            for hint in [false, true] {
                if !job.thorough && (thr + rule + u8::from(hint)) % 2 == 1 {
                    continue;
                }
                cfgs.push((thr, rule, hint));
            }
        }
    }
    if job.reverse {
        cfgs.reverse();
    }
    for (thr, rule, hint) in cfgs {
        let d = tracing_core::Dispatch::new(Coll { thr, rule, hint, seen: seen.clone() });
        res.collectors += 1;
        tracing_core::dispatch::with_default(&d, || a1_records(job, thr, rule, hint, &seen, &mut res));
        drop(d);
        // outside the scope no collector is current again
        a1_none(job, &seen, &mut res);
    }
    res
}

/// with no current collector a record must not produce anything (and must not panic)
fn a1_none(job: &A1Job, seen: &Arc<Mutex<Vec<Seen>>>, res: &mut A1Res) {
    seen.lock().unwrap().clear();
    for lvl in LOG_LEVELS {
        let meta = log::Metadata::builder().level(lvl).target("a").build();
        if log::logger().enabled(&meta) && res.bad.len() < 10 {
            res.bad.push((json!({"a1": job}), format!("Log::enabled is true for a {} record while no collector is current", lvl)));
        }
        log::logger().log(&log::Record::builder().metadata(meta).args(format_args!("x")).build());
        res.records += 1;
    }
    if !seen.lock().unwrap().is_empty() && res.bad.len() < 10 {
        res.bad.push((json!({"a1": job}), "an event reached a collector that is not current".into()));
    }
}

// ---- (A2) tracing -> log --------------------------------------------------------------------------------------------

#[derive(Clone, Debug, PartialEq, Eq, Serialize, Deserialize)]
pub enum Install {
    Never,
    /// Dispatch created (callsites see it) but never made a default
    CreatedOnly,
    Scoped,
    ScopedOtherThread,
    Global,
}

#[derive(Clone, Debug, Serialize, Deserialize)]
pub struct A2Job {
    pub install: Install,
    /// program position before which the collector is installed
    pub at: usize,
    /// program position before which a scoped guard is dropped again (> at)
    pub until: usize,
    /// does the collector enable the callsites?
    pub accept: bool,
}

#[derive(Clone, Debug, PartialEq, Eq, Serialize, Deserialize)]
struct LogRec {
    level: String,
    target: String,
    text: String,
}

struct RecLogger(Mutex<Vec<LogRec>>);
impl log::Log for RecLogger {
    fn enabled(&self, _: &log::Metadata<'_>) -> bool {
        true
    }
    fn log(&self, r: &log::Record<'_>) {
        self.0.lock().unwrap().push(LogRec { level: r.level().to_string(), target: r.target().to_string(), text: format!("{}", r.args()) });
    }
    fn flush(&self) {}
}

struct Plain(bool);
impl tracing_core::Collect for Plain {
    fn enabled(&self, _: &Metadata<'_>) -> bool {
        self.0
    }
    fn new_span(&self, _: &span::Attributes<'_>) -> span::Id {
        span::Id::from_u64(7)
    }
    fn record(&self, _: &span::Id, _: &span::Record<'_>) {}
    fn record_follows_from(&self, _: &span::Id, _: &span::Id) {}
    fn event(&self, _: &Event<'_>) {}
    fn enter(&self, _: &span::Id) {}
    fn exit(&self, _: &span::Id) {}
    fn current_span(&self) -> tracing_core::span::Current {
        tracing_core::span::Current::unknown()
    }
}

/// what one program step must log while no collector has ever been installed:
/// (level, target, fragments the text must contain)
type Want = (&'static str, &'static str, Vec<&'static str>);

const STEPS: usize = 17;

fn step_name(i: usize) -> &'static str {
    ["info! message+fields", "span a (fields)", "enter a", "warn! fields only", "record on a", "exit a", "span b (no fields, target)", "enter b", "error! target", "exit b", "drop b", "drop a", "trace! message", "debug_span c + in_scope", "event!(Level::DEBUG, ?dbg %disp)", "span d disabled then dropped", "span e entered() guard dropped"][i]
}

#[derive(Default)]
struct Prog {
    a: Option<tracing::Span>,
    a_in: Option<tracing::span::EnteredSpan>,
    b: Option<tracing::Span>,
    b_in: Option<tracing::span::EnteredSpan>,
}

const HERE: &str = module_path!();

fn exec_step(i: usize, p: &mut Prog) -> Vec<Want> {
    match i {
        0 => {
            tracing::info!(answer = 42, who = "me", "hello {}", 7);
            vec![("INFO", HERE, vec!["hello 7", "answer=42", "who=\"me\""])]
        }
        1 => {
            p.a = Some(tracing::span!(tracing::Level::INFO, "span_a", x = 1, y = "why"));
            vec![("INFO", HERE, vec!["span_a", "x=1", "y=\"why\""])]
        }
        2 => {
            p.a_in = p.a.take().map(|s| s.entered());
            vec![("TRACE", "tracing::span::active", vec!["-> span_a"])]
        }
        3 => {
            tracing::warn!(count = 3u64, flag = true);
            vec![("WARN", HERE, vec!["count=3", "flag=true"])]
        }
        4 => {
            if let Some(s) = p.a_in.as_ref() {
                s.record("x", 5);
            }
            vec![("INFO", HERE, vec!["span_a", "x=5"])]
        }
        5 => {
            p.a = p.a_in.take().map(|s| s.exit());
            vec![("TRACE", "tracing::span::active", vec!["<- span_a"])]
        }
        6 => {
            p.b = Some(tracing::span!(target: "custom::tgt", tracing::Level::WARN, "span_b"));
            vec![("WARN", "tracing::span", vec!["span_b"])]
        }
        7 => {
            p.b_in = p.b.take().map(|s| s.entered());
            vec![("TRACE", "tracing::span::active", vec!["-> span_b"])]
        }
        8 => {
            tracing::error!(target: "custom::tgt", code = -1, "failed");
            vec![("ERROR", "custom::tgt", vec!["failed", "code=-1"])]
        }
        9 => {
            p.b = p.b_in.take().map(|s| s.exit());
            vec![("TRACE", "tracing::span::active", vec!["<- span_b"])]
        }
        10 => {
            drop(p.b.take());
            vec![("TRACE", "tracing::span", vec!["-- span_b"])]
        }
        11 => {
            drop(p.a.take());
            vec![("TRACE", "tracing::span", vec!["-- span_a"])]
        }
        12 => {
            tracing::trace!("just a message");
            vec![("TRACE", HERE, vec!["just a message"])]
        }
        13 => {
            tracing::debug_span!("span_c", k = "v").in_scope(|| ());
            vec![("DEBUG", HERE, vec!["span_c", "k=\"v\""]), ("TRACE", "tracing::span::active", vec!["-> span_c"]), ("TRACE", "tracing::span::active", vec!["<- span_c"]), ("TRACE", "tracing::span", vec!["-- span_c"])]
        }
        14 => {
            let v = vec![1, 2];
            tracing::event!(tracing::Level::DEBUG, dbg = ?v, disp = %"shown");
            vec![("DEBUG", HERE, vec!["dbg=[1, 2]", "disp=shown"])]
        }
        15 => {
            drop(tracing::span!(tracing::Level::ERROR, "span_d"));
            vec![("ERROR", "tracing::span", vec!["span_d"]), ("TRACE", "tracing::span", vec!["-- span_d"])]
        }
        _ => {
            // the owning guard is dropped (not exit()ed): exit and close are both steps of the drop
            let g = tracing::info_span!("span_e", q = 1).entered();
            drop(g);
            vec![("INFO", HERE, vec!["span_e", "q=1"]), ("TRACE", "tracing::span::active", vec!["-> span_e"]), ("TRACE", "tracing::span::active", vec!["<- span_e"]), ("TRACE", "tracing::span", vec!["-- span_e"])]
        }
    }
}

#[derive(Serialize, Deserialize, Default)]
struct A2Res {
    steps: u64,
    records: u64,
    bad: Vec<String>,
}

fn run_a2(job: &A2Job) -> A2Res {
    let mut res = A2Res::default();
    let logger: &'static RecLogger = Box::leak(Box::new(RecLogger(Mutex::new(vec![]))));
    log::set_logger(logger).expect("set_logger");
    log::set_max_level(log::LevelFilter::Trace);
    let mut prog = Prog::default();
    let mut installed = false;
    let mut guard: Option<tracing_core::dispatch::DefaultGuard> = None;
    let mut keep: Vec<tracing_core::Dispatch> = vec![];
    for i in 0..STEPS {
        if i == job.at {
            match job.install {
                Install::Never => {}
                Install::CreatedOnly => keep.push(tracing_core::Dispatch::new(Plain(job.accept))),
                Install::Scoped => {
                    guard = Some(tracing_core::dispatch::set_default(&tracing_core::Dispatch::new(Plain(job.accept))));
                    installed = true;
                }
                Install::ScopedOtherThread => {
                    let acc = job.accept;
                    std::thread::spawn(move || {
                        let _g = tracing_core::dispatch::set_default(&tracing_core::Dispatch::new(Plain(acc)));
                    })
                    .join()
                    .unwrap();
                    installed = true;
                }
                Install::Global => {
                    tracing_core::dispatch::set_global_default(tracing_core::Dispatch::new(Plain(job.accept))).expect("global");
                    installed = true;
                }
            }
        }
        if i == job.until {
            guard = None;
        }
        logger.0.lock().unwrap().clear();
        let want = exec_step(i, &mut prog);
        res.steps += 1;
        let got = logger.0.lock().unwrap().clone();
        res.records += got.len() as u64;
        if installed {
            if !got.is_empty() {
                res.bad.push(format!("step {} ({}) emitted {} log record(s) after a collector had been installed: {:?}", i, step_name(i), got.len(), got));
            }
            continue;
        }
        if got.len() != want.len() {
            res.bad.push(format!("step {} ({}) emitted {} log record(s) with no collector ever installed, expected {}: {:?}", i, step_name(i), got.len(), want.len(), got));
            continue;
        }
        for (g, (lvl, tgt, frags)) in got.iter().zip(want.iter()) {
            if g.level != *lvl || g.target != *tgt {
                res.bad.push(format!("step {} ({}): record has level {} target {:?}, expected level {} target {:?} ({:?})", i, step_name(i), g.level, g.target, lvl, tgt, g.text));
            }
            for f in frags {
                if !g.text.contains(f) {
                    res.bad.push(format!("step {} ({}): record text {:?} does not contain {:?}", i, step_name(i), g.text, f));
                }
            }
        }
    }
    drop(guard);
    drop(keep);
    res
}

// ---- (A3) level conversions ------------------------------------------------------------------------------------------

fn run_a3() -> Vec<String> {
    let mut bad = vec![];
    let tl = [tracing_core::Level::ERROR, tracing_core::Level::WARN, tracing_core::Level::INFO, tracing_core::Level::DEBUG, tracing_core::Level::TRACE];
    for (i, l) in LOG_LEVELS.iter().enumerate() {
        if l.as_trace() != tl[i] || tl[i].as_log() != *l || l.as_trace().as_log() != *l {
            bad.push(format!("level {} does not round-trip: as_trace {} / as_log {}", l, l.as_trace(), tl[i].as_log()));
        }
        if l.to_string().to_uppercase() != l.as_trace().to_string().to_uppercase() {
            bad.push(format!("level {} maps to {}", l, l.as_trace()));
        }
        for (j, m) in LOG_LEVELS.iter().enumerate() {
            if (l < m) != (l.as_trace() < m.as_trace()) || (i < j) != (tl[i].as_log() < tl[j].as_log()) {
                bad.push(format!("order of {} and {} is not preserved", l, m));
            }
        }
    }
    for n in 0..6u8 {
        let (lf, tf) = (log_filter(n), trace_filter(n));
        if lf.as_trace() != tf || tf.as_log() != lf {
            bad.push(format!("filter {} does not round-trip", lf));
        }
        for k in 0..6u8 {
            if (lf < log_filter(k)) != (lf.as_trace() < log_filter(k).as_trace()) || (tf < trace_filter(k)) != (tf.as_log() < trace_filter(k).as_log()) {
                bad.push(format!("order of filters {} and {} is not preserved", lf, log_filter(k)));
            }
        }
        for (i, l) in LOG_LEVELS.iter().enumerate() {
            // a level passes a filter in one world iff it passes in the other
            if (*l <= lf) != (tl[i] <= tf) {
                bad.push(format!("{} <= {} differs between log and tracing", l, lf));
            }
        }
    }
    bad
}

// ---- driver -----------------------------------------------------------------------------------------------------------

#[derive(Serialize, Deserialize)]
enum Job {
    A1(A1Job),
    A2(A2Job),
}

fn runner(job: &[u8]) -> Vec<u8> {
    match serde_json::from_slice::<Job>(job).unwrap() {
        Job::A1(j) => serde_json::to_vec(&run_a1(&j)).unwrap(),
        Job::A2(j) => serde_json::to_vec(&run_a2(&j)).unwrap(),
    }
}

pub fn run(args: &Args) -> i32 {
    let mut rep = Report::new(args, "exploration");
    if let Some(p) = &args.replay {
        let v: serde_json::Value = serde_json::from_str(&std::fs::read_to_string(p).expect("read replay")).expect("json");
        let job: Job = if v["case"].get("a2").is_some() {
            Job::A2(serde_json::from_value(v["case"]["a2"].clone()).unwrap())
        } else {
            Job::A1(serde_json::from_value(v["case"]["a1"].clone()).unwrap())
        };
        let jb = serde_json::to_vec(&job).unwrap();
        let msgs: Vec<String> = match mc::pool::run_isolated(runner, &jb, Duration::from_secs(600)) {
            Outcome::Ok(b) => match job {
                Job::A1(_) => serde_json::from_slice::<A1Res>(&b).unwrap().bad.into_iter().map(|(_, m)| m).collect(),
                Job::A2(_) => serde_json::from_slice::<A2Res>(&b).unwrap().bad,
            },
            o => vec![format!("child {:?}", o)],
        };
        for m in &msgs {
            println!("VIOLATION property={} replay={} :: {}", args.property, p, m);
        }
        if msgs.is_empty() {
            println!("replay: no violation");
        }
        return i32::from(!msgs.is_empty());
    }
    let thorough = args.tier == Tier::Thorough;
    // (A1) builder configurations: every ordered list of up to 2 (thorough 3) ignore prefixes x max level
    let mut ignores: Vec<Vec<String>> = vec![vec![]];
    for a in IGNORE_POOL {
        ignores.push(vec![a.to_string()]);
        for b in IGNORE_POOL {
            if a != b {
                ignores.push(vec![a.to_string(), b.to_string()]);
                if thorough {
                    for c in IGNORE_POOL {
                        if c != a && c != b {
                            ignores.push(vec![a.to_string(), b.to_string(), c.to_string()]);
                        }
                    }
                }
            }
        }
    }
    let mut jobs: Vec<Job> = vec![];
    for (k, ig) in ignores.iter().enumerate() {
        for max in 0..7u8 {
            // every max level with the short lists; the long lists rotate through the max levels
            if ig.len() >= 2 && !(thorough && ig.len() == 2) && (k as u8 + max) % 7 != 0 && max != 6 {
                continue;
            }
            if ig.len() == 3 && max != (k % 7) as u8 {
                continue;
            }
            jobs.push(Job::A1(A1Job { ignore: ig.clone(), max, global: None, reverse: k % 2 == 1, thorough, via: if ig.len() == 2 && k % 3 == 0 { 2 } else { 0 } }));
            if ig.is_empty() {
                for via in [1u8, 3] {
                    jobs.push(Job::A1(A1Job { ignore: vec![], max, global: None, reverse: via == 3, thorough, via }));
                }
            }
        }
    }
    for max in 0..7u8 {
        for thr in 0..6u8 {
            for hint in [false, true] {
                for rule in [0u8, 1] {
                    if !thorough && (max + thr + rule) % 3 != 0 {
                        continue;
                    }
                    jobs.push(Job::A1(A1Job { ignore: if rule == 1 { vec!["ab".into()] } else { vec![] }, max, global: Some((thr, rule, hint)), reverse: false, thorough, via: 0 }));
                }
            }
        }
    }
    let n_a1 = jobs.len();
    // (A2) position and kind of the first installation
    for install in [Install::Never, Install::CreatedOnly, Install::Scoped, Install::ScopedOtherThread, Install::Global] {
        for accept in [false, true] {
            if install == Install::Never {
                if accept {
                    jobs.push(Job::A2(A2Job { install: install.clone(), at: 0, until: STEPS + 1, accept }));
                }
                continue;
            }
            for at in 0..=STEPS {
                let untils: Vec<usize> = if install == Install::Scoped { (at + 1..=STEPS + 1).collect() } else { vec![STEPS + 1] };
                for until in untils {
                    if !thorough && install == Install::Scoped && (until - at) > 3 && until != STEPS + 1 {
                        continue;
                    }
                    jobs.push(Job::A2(A2Job { install: install.clone(), at, until, accept }));
                }
            }
        }
    }
    let n_a2 = jobs.len() - n_a1;
    let mut pool = Pool::new(mc::pool::default_workers(), runner, true, Duration::from_secs(900));
    let (mut records, mut delivered, mut collectors, mut steps, mut logrecs) = (0u64, 0u64, 0u64, 0u64, 0u64);
    let mut bad: Vec<(serde_json::Value, String)> = vec![];
    let mut crashed = vec![];
    let sample_job = serde_json::to_value(&jobs[n_a1 / 2]).unwrap();
    let sample_job2 = serde_json::to_value(&jobs[n_a1 + n_a2 / 2]).unwrap();
    pool.run_list(jobs.iter().map(|j| serde_json::to_vec(j).unwrap()).collect(), |jb, out| {
        let job: Job = serde_json::from_slice(jb).unwrap();
        match (out, job) {
            (Outcome::Ok(b), Job::A1(_)) => {
                let r: A1Res = serde_json::from_slice(&b).unwrap();
                records += r.records;
                delivered += r.delivered;
                collectors += r.collectors;
                bad.extend(r.bad);
            }
            (Outcome::Ok(b), Job::A2(j)) => {
                let r: A2Res = serde_json::from_slice(&b).unwrap();
                steps += r.steps;
                logrecs += r.records;
                bad.extend(r.bad.into_iter().map(|m| (json!({"a2": j}), m)));
            }
            (o, _) => crashed.push(format!("{:?} on {}", o, String::from_utf8_lossy(jb))),
        }
    });
    for c in crashed {
        rep.machinery_error(c);
    }
    for m in run_a3() {
        bad.push((json!({"a3": true}), m));
    }
    bad.sort_by_key(|(c, m)| (c.to_string().len(), m.clone()));
    for (case, m) in &bad {
        rep.violation(m.clone(), case.clone());
    }
    rep.cov("evaluations", records + steps);
    rep.cov("distinct_nontrivial", delivered + logrecs);
    rep.cov("exhaustive", true);
    rep.cov("rule", "(A1) one process per LogTracer configuration {every ordered list of up to 2 (thorough 3) ignore prefixes from a pool with prefix-related entries} x {max level Off..Trace, default}; in each, every collector filter {level threshold Off..Trace x target rule (any / prefix / exact / none) x with or without a max-level hint} in both orders (scoped), or one collector installed globally; every record {5 levels x 16 targets (prefix-related, ignored, empty, non-ASCII) x 4 messages x file / line / module present or absent} is sent the way the log macros do. A record is non-trivial when it is delivered (the event's normalised metadata and message are then compared with the record). (A2) one process per (installation kind: never / created only / scoped / scoped on another thread / global; position in a 16-step program of events and span lifecycle steps; position where a scoped guard is dropped again; collector enables or disables the callsites): every step's log records are compared with the expected level, target and text fragments; non-trivial = log records emitted. (A3) all levels and filters, both directions.");
    rep.cov("log_records_sent", records);
    rep.cov("events_delivered_and_compared", delivered);
    rep.cov("logtracer_configurations", n_a1 as u64);
    rep.cov("collector_configurations_run", collectors);
    rep.cov("tracing_to_log_histories", n_a2 as u64);
    rep.cov("tracing_to_log_steps", steps);
    rep.cov("log_records_emitted_by_tracing", logrecs);
    rep.sample(sample_job);
    rep.sample(sample_job2);
    rep.assume("records are handed to the logger the way the log macros do it (level <= log::max_level() first)");
    rep.assume("collectors whose max_level_hint is Some give a hint consistent with their enabled()");
    rep.finish()
}
