//! C16 — rolling appender: a write lands in its period's file; only the oldest are pruned.
//! (A) exhaustive clock scripts x configurations through both interfaces, against a period /
//! pruning model, directory re-read after every write; (B) Engine S: threads writing through the
//! shared MakeWriter interface at a period boundary, every interleaving up to the bound.
use mc::explore::{explore, ExploreCfg, SJob, SResult, Stats};
use mc::pool::{Outcome, Pool};
use mc::sched::{self, End, RunCfg};
use mc::{Args, Report, Tier};
use serde::{Deserialize, Serialize};
use serde_json::json;
use std::collections::BTreeMap;
use std::io::Write;
use std::path::{Path, PathBuf};
use std::sync::atomic::{AtomicU64, Ordering};
use std::time::{Duration, Instant};
use tracing_appender::rolling::{RollingFileAppender, Rotation};
use tracing_subscriber::fmt::MakeWriter;

#[derive(Clone, Debug, Serialize, Deserialize)]
pub struct Cfg {
    /// 0 minutely, 1 hourly, 2 daily, 3 never
    pub rotation: u8,
    pub prefix: bool,
    pub suffix: bool,
    /// 0 = no limit
    pub max_files: usize,
    /// true: shared `MakeWriter` interface, false: exclusive `&mut Write`
    pub make_writer: bool,
    /// creation instant followed by the instants of the writes (unix seconds)
    pub clock: Vec<i64>,
    /// log files of earlier periods (and one unrelated file) already present when the appender is built
    #[serde(default)]
    pub backlog: usize,
    /// prefix / suffix strings that contain a dot themselves ("pre.app", "log.txt")
    #[serde(default)]
    pub dotted: bool,
    /// build through the convenience constructors `rolling::{minutely, hourly, daily, never}`
    #[serde(default)]
    pub ctor: bool,
}

static DIRN: AtomicU64 = AtomicU64::new(0);

fn scratch_base() -> PathBuf {
    // a memory-backed file system when it reports file birth times, else the build directory
    let shm = PathBuf::from("/dev/shm");
    let probe = shm.join(format!("verif-c16-probe-{}", std::process::id()));
    let ok = std::fs::write(&probe, b"").is_ok() && std::fs::metadata(&probe).and_then(|m| m.created()).is_ok();
    let _ = std::fs::remove_file(&probe);
    if ok && std::env::var_os("VERIF_C16_ON_DISK").is_none() {
        return shm.join("verif-c16");
    }
    std::env::current_exe().ok().and_then(|p| p.parent().map(|d| d.join("c16-tmp"))).unwrap_or_else(|| PathBuf::from("/verif/engine/target/c16-tmp"))
}

fn fresh_dir() -> PathBuf {
    static BASE: std::sync::OnceLock<PathBuf> = std::sync::OnceLock::new();
    let base = BASE.get_or_init(scratch_base);
    let d = base.join(format!("{}-{}", std::process::id(), DIRN.fetch_add(1, Ordering::SeqCst)));
    let _ = std::fs::remove_dir_all(&d);
    std::fs::create_dir_all(&d).expect("create scratch dir");
    d
}

fn rot(r: u8) -> Rotation {
    match r {
        0 => Rotation::MINUTELY,
        1 => Rotation::HOURLY,
        2 => Rotation::DAILY,
        _ => Rotation::NEVER,
    }
}

fn period_len(r: u8) -> Option<i64> {
    match r {
        0 => Some(60),
        1 => Some(3600),
        2 => Some(86400),
        _ => None,
    }
}

/// independent civil-date formatting of the period containing `t`
fn date_string(r: u8, t: i64) -> String {
    let days = t.div_euclid(86_400);
    let rem = t.rem_euclid(86_400);
    let z = days + 719_468;
    let era = z.div_euclid(146_097);
    let doe = z.rem_euclid(146_097);
    let yoe = (doe - doe / 1460 + doe / 36_524 - doe / 146_096) / 365;
    let y = yoe + era * 400;
    let doy = doe - (365 * yoe + yoe / 4 - yoe / 100);
    let mp = (5 * doy + 2) / 153;
    let d = doy - (153 * mp + 2) / 5 + 1;
    let m = if mp < 10 { mp + 3 } else { mp - 9 };
    let y = if m <= 2 { y + 1 } else { y };
    let (hh, mm) = (rem / 3600, rem / 60 % 60);
    match r {
        0 => format!("{:04}-{:02}-{:02}-{:02}-{:02}", y, m, d, hh, mm),
        1 => format!("{:04}-{:02}-{:02}-{:02}", y, m, d, hh),
        _ => format!("{:04}-{:02}-{:02}", y, m, d),
    }
}

fn pre(c: &Cfg) -> &'static str {
    if c.dotted { "pre.app" } else { "pre" }
}
fn suf(c: &Cfg) -> &'static str {
    if c.dotted { "log.txt" } else { "suf" }
}

fn file_name(c: &Cfg, t: i64) -> String {
    let date = date_string(c.rotation, t);
    let (pre, suf) = (pre(c), suf(c));
    match (c.rotation == 3, c.prefix, c.suffix) {
        (true, true, false) => pre.to_string(),
        (true, true, true) => format!("{}.{}", pre, suf),
        (true, false, true) => suf.to_string(),
        (_, true, true) => format!("{}.{}.{}", pre, date, suf),
        (_, true, false) => format!("{}.{}", pre, date),
        (_, false, true) => format!("{}.{}", date, suf),
        (_, false, false) => date,
    }
}

fn build(c: &Cfg, dir: &Path) -> Result<RollingFileAppender, String> {
    if c.ctor {
        return Ok(match c.rotation {
            0 => tracing_appender::rolling::minutely(dir, "pre"),
            1 => tracing_appender::rolling::hourly(dir, "pre"),
            2 => tracing_appender::rolling::daily(dir, "pre"),
            _ => tracing_appender::rolling::never(dir, "pre"),
        });
    }
    let mut b = RollingFileAppender::builder().rotation(rot(c.rotation));
    if c.prefix {
        b = b.filename_prefix(pre(c));
    }
    if c.suffix {
        b = b.filename_suffix(suf(c));
    }
    if c.max_files > 0 {
        b = b.max_log_files(c.max_files);
    }
    b.build(dir).map_err(|e| e.to_string())
}

fn read_dir(dir: &Path) -> BTreeMap<String, String> {
    let mut m = BTreeMap::new();
    if let Ok(rd) = std::fs::read_dir(dir) {
        for e in rd.flatten() {
            let name = e.file_name().to_string_lossy().into_owned();
            m.insert(name, std::fs::read_to_string(e.path()).unwrap_or_else(|_| "<unreadable>".into()));
        }
    }
    m
}

pub fn check_cfg(c: &Cfg) -> Vec<String> {
    sched::install_hooks();
    let dir = fresh_dir();
    let mut bad = vec![];
    let plen = period_len(c.rotation);
    let mut files: Vec<String> = vec![];
    let mut contents: BTreeMap<String, String> = BTreeMap::new();
    if c.backlog > 0 {
        std::fs::write(dir.join("unrelated.txt"), b"keep me").unwrap();
        for k in (1..=c.backlog).rev() {
            next_tick(&dir);
            let name = file_name(c, c.clock[0] - k as i64 * plen.unwrap_or(86_400));
            let body = format!("old{}\n", k);
            std::fs::write(dir.join(&name), &body).unwrap();
            files.push(name.clone());
            contents.insert(name, body);
        }
        next_tick(&dir);
    }
    sched::set_thread_clock(Some((c.clock[0], 0)));
    let mut app = match build(c, &dir) {
        Ok(a) => a,
        Err(e) => {
            let _ = std::fs::remove_dir_all(&dir);
            return vec![format!("builder failed: {}", e)];
        }
    };
    // model: the open file belongs to the period of the last rotation (or of the creation)
    let period_start = |t: i64| plen.map_or(0, |p| t.div_euclid(p) * p);
    let mut cur_file = file_name(c, c.clock[0]);
    let mut next_boundary: Option<i64> = plen.map(|p| period_start(c.clock[0]) + p);
    // files the model believes exist, in creation order
    files.push(cur_file.clone());
    contents.insert(cur_file.clone(), String::new());
    for (k, &t) in c.clock[1..].iter().enumerate() {
        sched::set_thread_clock(Some((t, 500)));
        let payload = format!("<{}>\n", k);
        // expected rotation
        let rotates = next_boundary.map_or(false, |b| t >= b);
        if rotates {
            if c.max_files > 0 {
                next_tick(&dir);
            }
            let name = file_name(c, t);
            // prune first: keep the newest max_files-1 of the appender's files, then create
            if c.max_files > 0 && files.len() >= c.max_files {
                let remove = files.len() - (c.max_files - 1);
                for f in files.drain(..remove) {
                    contents.remove(&f);
                }
            }
            if !files.contains(&name) {
                files.push(name.clone());
                contents.entry(name.clone()).or_default();
            }
            cur_file = name;
            next_boundary = plen.map(|p| period_start(t) + p);
        }
        if contents.contains_key(&cur_file) {
            contents.get_mut(&cur_file).unwrap().push_str(&payload);
        }
        let r = if c.make_writer {
            let mut w = app.make_writer();
            w.write_all(payload.as_bytes())
        } else {
            app.write_all(payload.as_bytes())
        };
        if let Err(e) = r {
            bad.push(format!("write #{} at t={} failed: {}", k, t, e));
        }
        let _ = app.flush();
        let mut got = read_dir(&dir);
        if c.backlog > 0 && got.remove("unrelated.txt").as_deref() != Some("keep me") {
            bad.push(format!("after write #{} at t={}: a file that is not one of the appender's log files was removed or altered", k, t));
        }
        if got != contents {
            bad.push(format!(
                "after write #{} at t={} ({}): directory is {:?}; the period model expects {:?}",
                k,
                t,
                date_string(0, t),
                got.iter().map(|(n, c)| format!("{}={:?}", n, c)).collect::<Vec<_>>(),
                contents.iter().map(|(n, c)| format!("{}={:?}", n, c)).collect::<Vec<_>>()
            ));
            break;
        }
        if rotates && c.max_files > 0 && got.len() > c.max_files {
            bad.push(format!("{} log files exist with max_log_files = {}", got.len(), c.max_files));
        }
    }
    drop(app);
    let _ = std::fs::remove_dir_all(&dir);
    bad
}

/// File birth times have the kernel's timer-tick granularity (and, with multigrain timestamps,
/// a shared floor); pruning orders files by them, so two files created within one tick have no
/// defined order. Successive rotations in real use are at least a minute apart: before each one,
/// wait until a newly created file is stamped strictly later than every file in the directory.
fn next_tick(dir: &Path) {
    let newest = std::fs::read_dir(dir)
        .into_iter()
        .flatten()
        .flatten()
        .filter_map(|e| e.metadata().ok()?.created().ok())
        .max();
    let Some(newest) = newest else { return };
    let probe = dir.with_extension("probe");
    loop {
        let _ = std::fs::remove_file(&probe);
        std::fs::write(&probe, b"").expect("probe file");
        let born = std::fs::metadata(&probe).and_then(|m| m.created()).expect("birth time");
        if born > newest {
            break;
        }
        std::thread::sleep(Duration::from_micros(500));
    }
    let _ = std::fs::remove_file(&probe);
}

// ---- clock scripts ---------------------------------------------------------------------------------------

fn days_from_civil(y: i64, m: i64, d: i64) -> i64 {
    let y = if m <= 2 { y - 1 } else { y };
    let era = y.div_euclid(400);
    let yoe = y.rem_euclid(400);
    let mp = if m > 2 { m - 3 } else { m + 9 };
    let doy = (153 * mp + 2) / 5 + d - 1;
    let doe = yoe * 365 + yoe / 4 - yoe / 100 + doy;
    era * 146_097 + doe - 719_468
}

pub fn instants(rotation: u8, tier: Tier) -> Vec<i64> {
    let p = period_len(rotation).unwrap_or(3600);
    // anchors: an ordinary boundary, month end, year end, leap day (leap and non-leap year)
    let mut anchors = vec![days_from_civil(2021, 6, 15) * 86_400 + 13 * 3600];
    anchors.push(days_from_civil(2021, 2, 1) * 86_400); // month end boundary
    anchors.push(days_from_civil(2022, 1, 1) * 86_400); // year end
    anchors.push(days_from_civil(2024, 2, 29) * 86_400); // leap day begins
    anchors.push(days_from_civil(2024, 3, 1) * 86_400);
    if tier == Tier::Thorough {
        anchors.push(days_from_civil(2023, 3, 1) * 86_400);
        anchors.push(days_from_civil(2100, 3, 1) * 86_400);
        anchors.push(days_from_civil(2000, 1, 1) * 86_400);
    }
    let mut v = vec![];
    for b in anchors {
        for d in [-1i64, 0, 1] {
            v.push(b + d);
        }
        v.push(b + p - 1);
        v.push(b + p);
        v.push(b + 2 * p);
        v.push(b + 61 * p);
        v.push(b + 25 * 3600);
        v.push(b + 32 * 86_400);
    }
    v.sort();
    v.dedup();
    v
}

fn scripts(rotation: u8, tier: Tier) -> Vec<Vec<i64>> {
    let len = tier.pick(3, 4);
    let all = instants(rotation, tier);
    // windows of the instant list keep the sequences local to one anchor (all non-decreasing
    // sequences over a sliding window of 6 consecutive instants), plus single back-steps
    let mut out = vec![];
    let w = tier.pick(5, 6);
    for start in 0..all.len().saturating_sub(w - 1) {
        let win = &all[start..start + w];
        fn rec(win: &[i64], from: usize, cur: &mut Vec<i64>, len: usize, out: &mut Vec<Vec<i64>>) {
            if cur.len() >= 2 {
                out.push(cur.clone());
            }
            if cur.len() == len + 1 {
                return;
            }
            for i in from..win.len() {
                cur.push(win[i]);
                rec(win, i, cur, len, out);
                cur.pop();
            }
        }
        rec(win, 0, &mut vec![], len, &mut out);
    }
    // back-steps: a later instant, then -1 s and -1 period, then forward again
    let p = period_len(rotation).unwrap_or(3600);
    for &t in all.iter().step_by(3) {
        out.push(vec![t, t + p, t + p - 1, t + p + 1]);
        out.push(vec![t, t + p, t, t + p]);
        out.push(vec![t, t, t - 1, t]);
        out.push(vec![t, t + 2 * p, t + p, t + 2 * p + 1, t + 3 * p]);
    }
    out.sort();
    out.dedup();
    out
}

// ---- (B) schedules --------------------------------------------------------------------------------------------

#[derive(Clone, Debug, Serialize, Deserialize)]
pub struct Scenario {
    pub rotation: u8,
    pub threads: usize,
    pub writes: usize,
    pub max_files: usize,
}

pub fn run_schedule(job: &[u8]) -> Vec<u8> {
    let job: SJob = serde_json::from_slice(job).unwrap();
    let sc: Scenario = serde_json::from_str(&job.scenario).unwrap();
    sched::install_hooks();
    let dir = fresh_dir();
    let c = Cfg { rotation: sc.rotation, prefix: true, suffix: false, max_files: sc.max_files, make_writer: true, clock: vec![], backlog: 0, ctor: false, dotted: false };
    let t0 = days_from_civil(2021, 6, 15) * 86_400 + 13 * 3600 + 10;
    let p = period_len(sc.rotation).unwrap_or(3600);
    let t1 = (t0 / p + 1) * p; // exactly the next boundary
    sched::set_global_clock(Some((t0, 0)));
    let app = std::sync::Arc::new(build(&c, &dir).expect("build"));
    sched::set_global_clock(Some((t1, 0)));
    let bodies: Vec<Box<dyn FnOnce() + Send>> = (0..sc.threads)
        .map(|t| {
            let app = app.clone();
            let n = sc.writes;
            Box::new(move || {
                for k in 0..n {
                    let mut w = app.make_writer();
                    sched::point("harness.between_make_writer_and_write");
                    let _ = w.write_all(format!("<t{}-{}>\n", t, k).as_bytes());
                }
            }) as Box<dyn FnOnce() + Send>
        })
        .collect();
    let trace = sched::run_threads(RunCfg { prefix: job.prefix.clone(), horizon: 4000, record_steps: job.record_steps }, bodies);
    let mut v = vec![];
    match &trace.end {
        End::Done => {}
        End::Deadlock(w) => v.push(format!("deadlock: {:?}", w)),
        End::Livelock => v.push("livelock".into()),
        End::Diverged(_) => {}
    }
    for (t, m) in &trace.panics {
        v.push(format!("panic on t{}: {}", t, m));
    }
    let mut obs = String::new();
    if trace.end == End::Done {
        let got = read_dir(&dir);
        let old = file_name(&c, t0);
        let new = file_name(&c, t1);
        // exactly one rotation: the old file and the new file, nothing else
        let names: Vec<&String> = got.keys().collect();
        let allowed: Vec<&String> = if sc.max_files == 1 { vec![&new] } else { vec![&new, &old] };
        if !got.contains_key(&new) || names.iter().any(|n| !allowed.contains(n)) || (sc.max_files != 1 && !got.contains_key(&old)) {
            v.push(format!("after one boundary the directory holds {:?}; expected exactly {:?} (one rotation)", names, allowed));
        }
        // nothing lost, nothing duplicated, whole lines; a write overlapping the rotation may
        // land in the file being replaced
        for t in 0..sc.threads {
            for k in 0..sc.writes {
                let pay = format!("<t{}-{}>\n", t, k);
                let count: usize = got.values().map(|c| c.matches(&pay).count()).sum();
                // with max_files == 1 the replaced file is deleted: a write that overlapped the
                // rotation and landed in it is gone with it (the property allows landing there)
                if count > 1 || (count == 0 && sc.max_files != 1) {
                    v.push(format!("payload {:?} is stored {} times", pay.trim(), count));
                }
            }
        }
        for (n, c) in &got {
            let stripped: String = c.split_inclusive('\n').filter(|l| !(l.starts_with("<t") && l.ends_with(">\n"))).collect();
            if !stripped.is_empty() {
                v.push(format!("file {} contains torn data {:?}", n, stripped));
            }
            obs.push_str(&format!("{}:{};", n, c.matches('\n').count()));
        }
    }
    drop(app);
    let _ = std::fs::remove_dir_all(&dir);
    v.sort();
    v.dedup();
    serde_json::to_vec(&SResult { trace: Some(trace), violations: v, known: vec![], obs, conflicts: vec![] }).unwrap()
}

// ---- driver ------------------------------------------------------------------------------------------------------

#[derive(Serialize, Deserialize, Clone, Debug, Default)]
struct Res {
    evals: u64,
    bad: Vec<(Cfg, Vec<String>)>,
}

fn runner(job: &[u8]) -> Vec<u8> {
    let cfgs: Vec<Cfg> = serde_json::from_slice(job).unwrap();
    let mut res = Res::default();
    for c in cfgs {
        let cc = c.clone();
        let bad = std::panic::catch_unwind(move || check_cfg(&cc)).unwrap_or_else(|_| vec!["panic".into()]);
        res.evals += (c.clock.len() - 1) as u64;
        if !bad.is_empty() && res.bad.len() < 20 {
            res.bad.push((c, bad));
        }
    }
    serde_json::to_vec(&res).unwrap()
}

pub fn run(args: &Args) -> i32 {
    let mut rep = Report::new(args, "model_checking");
    if let Some(p) = &args.replay {
        let v: serde_json::Value = serde_json::from_str(&std::fs::read_to_string(p).expect("read replay")).expect("json");
        let bad = if v["case"].get("scenario").is_some() {
            let mut job: SJob = serde_json::from_value(v["case"].clone()).unwrap();
            job.record_steps = true;
            match mc::pool::run_isolated(run_schedule, &serde_json::to_vec(&job).unwrap(), Duration::from_secs(30)) {
                Outcome::Ok(b) => serde_json::from_slice::<SResult>(&b).unwrap().violations,
                o => vec![format!("child {:?}", o)],
            }
        } else {
            check_cfg(&serde_json::from_value(v["case"].clone()).unwrap())
        };
        for x in &bad {
            println!("VIOLATION property={} replay={} :: {}", args.property, p, x);
        }
        if bad.is_empty() {
            println!("replay: no violation");
        }
        return i32::from(!bad.is_empty());
    }
    if args.extra.iter().any(|a| a == "--tickprobe") {
        let d = fresh_dir();
        let mut ties = 0;
        for i in 0..500 {
            let (a, b) = (d.join(format!("a{}", i)), d.join(format!("b{}", i)));
            std::fs::write(&a, b"").unwrap();
            next_tick(&d);
            std::fs::write(&b, b"").unwrap();
            let (ca, cb) = (std::fs::metadata(&a).unwrap().created().unwrap(), std::fs::metadata(&b).unwrap().created().unwrap());
            if cb <= ca {
                ties += 1;
                println!("tie/backwards: {:?} then {:?}", ca, cb);
            }
        }
        println!("ties={}", ties);
        let _ = std::fs::remove_dir_all(&d);
        return 0;
    }
    // birth times are needed by the pruning order
    {
        let d = fresh_dir();
        let f = d.join("probe");
        std::fs::write(&f, b"x").unwrap();
        let ok = std::fs::metadata(&f).and_then(|m| m.created()).is_ok();
        let _ = std::fs::remove_dir_all(&d);
        if !ok {
            rep.machinery_error("the scratch file system does not report file creation times");
            return rep.finish();
        }
    }
    let rep_start = Instant::now();
    let on_memory_fs = scratch_base().starts_with("/dev/shm");
    rep.cov("scratch_on_memory_fs", on_memory_fs);
    let mut cfgs = vec![];
    let tier_mod = if on_memory_fs { args.tier.pick(4usize, 1) } else { args.tier.pick(32usize, 1) };
    for rotation in 0..4u8 {
        let ss = scripts(rotation, args.tier);
        for (prefix, suffix) in [(true, true), (true, false), (false, true), (false, false)] {
            for max_files in [0usize, 1, 2, 3] {
                for make_writer in [false, true] {
                    // quick: the full script set for prefix-only / unlimited and limit 2; a 1-in-4 subset elsewhere
                    // on a disk-backed scratch directory (no memory file system) the quick tier keeps a quarter
                    let full = args.tier == Tier::Thorough || on_memory_fs;
                    for (i, s) in ss.iter().enumerate() {
                        if full || i % 16 == (rotation as usize + max_files) % 16 {
                            cfgs.push(Cfg { rotation, prefix, suffix, max_files, make_writer, clock: s.clone(), backlog: 0, ctor: false, dotted: false });
                            if prefix && !suffix && max_files == 0 && i % 3 == 0 {
                                cfgs.push(Cfg { rotation, prefix, suffix, max_files, make_writer, clock: s.clone(), backlog: 0, ctor: true, dotted: false });
                            }
                        }
                        // prefix / suffix strings with a dot of their own, where a limit prunes by name
                        if (prefix || suffix) && max_files > 0 && rotation != 3 && i % 4 == (rotation as usize + max_files) % 4 {
                            cfgs.push(Cfg { rotation, prefix, suffix, max_files, make_writer, clock: s.clone(), backlog: 0, ctor: false, dotted: true });
                        }
                        // a directory that already holds more log files than the limit
                        if max_files > 0 && rotation != 3 && (i % tier_mod == (rotation as usize * 3 + max_files) % tier_mod) {
                            for backlog in [max_files, max_files + 2] {
                                cfgs.push(Cfg { rotation, prefix, suffix, max_files, make_writer, clock: s.clone(), backlog, ctor: false, dotted: false });
                            }
                        }
                    }
                }
            }
        }
    }
    let ncfg = cfgs.len();
    let mut evals = 0u64;
    let mut bad: Vec<(Cfg, Vec<String>)> = vec![];
    {
        let mut pool = Pool::new(mc::pool::default_workers() * 2, runner, false, Duration::from_secs(1800));
        let mut crashed = vec![];
        pool.run_list(cfgs.chunks(200).map(|c| serde_json::to_vec(c).unwrap()).collect(), |_, out| match out {
            Outcome::Ok(b) => {
                let r: Res = serde_json::from_slice(&b).unwrap();
                evals += r.evals;
                bad.extend(r.bad);
            }
            o => crashed.push(format!("{:?}", o)),
        });
        for c in crashed {
            rep.machinery_error(c);
        }
    }
    rep.cov("clock_part_seconds", rep_start.elapsed().as_secs_f64());
    bad.sort_by_key(|(c, _)| serde_json::to_string(c).unwrap());
    for (c, msgs) in &bad {
        rep.violation(format!("{} (+{} more)", msgs[0], msgs.len() - 1), serde_json::to_value(c).unwrap());
    }
    // (B)
    let mut pool = Pool::new(mc::pool::default_workers(), run_schedule, true, Duration::from_secs(30));
    let bound = args.tier.pick(2, 3);
    let mut tot = (0u64, 0u64, 0u64);
    let mut capped = false;
    let mut per = vec![];
    let mut scs = vec![];
    for rotation in [0u8, 1, 2] {
        for (threads, writes) in [(2usize, 1usize), (2, 2), (3, 1)] {
            for max_files in [0usize, 2] {
                if args.tier == Tier::Quick && (rotation != 0 && (threads, writes) != (2, 1)) {
                    continue;
                }
                scs.push(Scenario { rotation, threads, writes, max_files });
            }
        }
    }
    for sc in &scs {
        let mut st = Stats::default();
        let cfg = ExploreCfg { bound, deadline: Instant::now() + Duration::from_secs(args.tier.pick(8, 120)), max_schedules: u64::MAX, stop_on_violation: true };
        explore(&mut pool, &serde_json::to_string(sc).unwrap(), &cfg, &mut st);
        tot.0 += st.schedules;
        tot.1 += st.tree_nodes;
        tot.2 += st.steps;
        capped |= st.capped;
        per.push(json!({"scenario": sc, "schedules": st.schedules, "distinct_outcomes": st.distinct_obs.len(), "capped": st.capped}));
        for m in st.machinery {
            rep.machinery_error(format!("{:?}: {}", sc, m));
        }
        for (what, job) in st.violations.iter().take(2) {
            rep.violation(format!("[{:?}] {}", sc, what), serde_json::to_value(job).unwrap());
        }
        if let Some((job, labels)) = st.sample {
            rep.sample(json!({"scenario": sc, "schedule_choices": job.prefix, "decision_labels": labels}));
        }
    }
    rep.cov("states", tot.1 + ncfg as u64);
    rep.cov("transitions", tot.2 + evals);
    rep.cov("traces_validated_against_impl", tot.0 + ncfg as u64);
    rep.cov("clock_script_configurations", ncfg as u64);
    rep.cov("writes_checked", evals);
    rep.cov("schedules", tot.0);
    rep.cov("preemption_bound", bound as u64);
    rep.cov("schedule_bound_completed", !capped);
    rep.cov("scenarios", json!(per));
    rep.sample(json!({"configuration": cfgs[cfgs.len() / 2]}));
    rep.cov("explanation", "(A) every non-decreasing sequence of up to 3 (thorough 4) write instants over sliding windows of a boundary set (b-1 s, b, b+1 s, b+period-1, +1, +2, +61 periods, +25 h, +32 d around an ordinary boundary, a month end, a year end, Feb 29 / Mar 1 of a leap year) plus back-step scripts, for each rotation kind x prefix/suffix combination x file limit x interface, with the directory re-read and compared with the period / pruning model after every write; (B) 2-3 threads writing through the shared MakeWriter at exactly a period boundary, every interleaving up to the bound of the next_date load / CAS, the file lock and the window between make_writer() and write()");
    let _ = std::fs::remove_dir(scratch_base());
    rep.assume("the clock is supplied through the verif-hooks seam consulted by RollingFileAppender::now and the builder");
    rep.assume("file creation times come from the real file system (ext4 birth time); files are created sequentially so creation order equals logical order");
    rep.finish()
}
