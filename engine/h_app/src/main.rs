//! Harness for the tracing-appender properties: C15 C16.
mod c15;
mod c16;

fn main() {
    let args = mc::parse_args();
    let code = match args.property.as_str() {
        "C15" => c15::run(&args),
        "C16" => c16::run(&args),
        p => {
            eprintln!("h_app: unknown property {}", p);
            2
        }
    };
    std::process::exit(code);
}
