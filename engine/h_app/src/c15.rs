//! C15 — the non-blocking writer neither loses, duplicates nor reorders accepted lines.
//! Engine S + fault enumeration: producers, the library's worker thread and the guard-dropping
//! thread run as real threads under the cooperative scheduler; the underlying writer is scripted
//! (every write_all / flush is a scheduling point and fails according to a fault mask).
use mc::explore::{explore, ExploreCfg, SJob, SResult, Stats};
use mc::pool::{Outcome, Pool};
use mc::sched::{self, End, RunCfg};
use mc::{Args, Report, Tier};
use serde::{Deserialize, Serialize};
use serde_json::json;
use std::io::Write;
use std::sync::atomic::{AtomicBool, AtomicUsize, Ordering};
use std::sync::{Arc, Mutex};
use std::time::{Duration, Instant};
use tracing_appender::non_blocking::NonBlockingBuilder;

#[derive(Clone, Debug, Serialize, Deserialize)]
pub struct Scenario {
    pub producers: usize,
    pub lines: usize,
    pub capacity: usize,
    pub lossy: bool,
    /// true: the guard is dropped only after every producer finished; false: at any time
    pub guard_after: bool,
    /// bit i set: the i-th call on the underlying writer (write_all or flush) fails
    pub fault_mask: u32,
}

#[derive(Clone, Debug, PartialEq)]
enum Ev {
    OfferStart(usize, usize),
    OfferEnd(usize, usize, bool),
    GuardDropStart,
    GuardDropEnd,
    Write(String, bool),
    Flush(bool),
    WriterDropped,
}

struct Shared {
    log: Mutex<Vec<Ev>>,
    calls: AtomicUsize,
    mask: u32,
}

struct ScriptedWriter(Arc<Shared>);

impl ScriptedWriter {
    fn fails(&self) -> bool {
        let i = self.0.calls.fetch_add(1, Ordering::SeqCst);
        i < 32 && self.0.mask & (1 << i) != 0
    }
}

impl Write for ScriptedWriter {
    fn write(&mut self, buf: &[u8]) -> std::io::Result<usize> {
        sched::point("writer.write");
        let fail = self.fails();
        self.0.log.lock().unwrap().push(Ev::Write(String::from_utf8_lossy(buf).into_owned(), !fail));
        if fail {
            Err(std::io::Error::new(std::io::ErrorKind::Other, "scripted write failure"))
        } else {
            Ok(buf.len())
        }
    }
    fn flush(&mut self) -> std::io::Result<()> {
        sched::point("writer.flush");
        let fail = self.fails();
        self.0.log.lock().unwrap().push(Ev::Flush(!fail));
        if fail {
            Err(std::io::Error::new(std::io::ErrorKind::Other, "scripted flush failure"))
        } else {
            Ok(())
        }
    }
}

impl Drop for ScriptedWriter {
    fn drop(&mut self) {
        self.0.log.lock().unwrap().push(Ev::WriterDropped);
    }
}

fn line(p: usize, k: usize) -> String {
    format!("p{}-l{}\n", p, k)
}

pub fn run_schedule(job: &[u8]) -> Vec<u8> {
    let job: SJob = serde_json::from_slice(job).unwrap();
    let sc: Scenario = serde_json::from_str(&job.scenario).unwrap();
    serde_json::to_vec(&run_scenario(&sc, job.prefix.clone(), job.record_steps)).unwrap()
}

fn run_scenario(sc: &Scenario, prefix: Vec<u8>, record_steps: bool) -> SResult {
    sched::install_hooks();
    let shared = Arc::new(Shared { log: Mutex::new(vec![]), calls: AtomicUsize::new(0), mask: sc.fault_mask });
    let done: Arc<Vec<AtomicBool>> = Arc::new((0..sc.producers).map(|_| AtomicBool::new(false)).collect());
    // The appender (and its worker thread) must be created by a scheduled thread so that the
    // scheduler owns the worker from its first instruction: thread 0 creates it, hands the
    // producers their clones, then acts as the guard holder.
    let slot: Arc<Mutex<Option<tracing_appender::non_blocking::NonBlocking>>> = Arc::new(Mutex::new(None));
    let created = Arc::new(AtomicBool::new(false));
    let counter_slot: Arc<Mutex<Option<tracing_appender::non_blocking::ErrorCounter>>> = Arc::new(Mutex::new(None));
    let mut bodies: Vec<Box<dyn FnOnce() + Send>> = vec![];
    {
        let (shared, done, slot, created, counter_slot, sc2) = (shared.clone(), done.clone(), slot.clone(), created.clone(), counter_slot.clone(), sc.clone());
        bodies.push(Box::new(move || {
            let (nb, guard) = NonBlockingBuilder::default().buffered_lines_limit(sc2.capacity).lossy(sc2.lossy).finish(ScriptedWriter(shared.clone()));
            *counter_slot.lock().unwrap() = Some(nb.error_counter());
            *slot.lock().unwrap() = Some(nb);
            created.store(true, Ordering::SeqCst);
            if sc2.guard_after {
                sched::wait_until("harness.guard.wait_for_producers", &|| done.iter().all(|d| d.load(Ordering::SeqCst)));
            } else {
                sched::point("harness.guard.drop");
            }
            // the last NonBlocking handle of this thread goes first (the guard keeps its own sender)
            drop(slot.lock().unwrap().take());
            shared.log.lock().unwrap().push(Ev::GuardDropStart);
            drop(guard);
            shared.log.lock().unwrap().push(Ev::GuardDropEnd);
        }));
    }
    for p in 0..sc.producers {
        let (shared, done, slot, created, n) = (shared.clone(), done.clone(), slot.clone(), created.clone(), sc.lines);
        bodies.push(Box::new(move || {
            sched::wait_until("harness.producer.wait_for_appender", &|| created.load(Ordering::SeqCst));
            let nb = slot.lock().unwrap().clone();
            if let Some(mut nb) = nb {
                for k in 0..n {
                    shared.log.lock().unwrap().push(Ev::OfferStart(p, k));
                    let r = nb.write_all(line(p, k).as_bytes());
                    shared.log.lock().unwrap().push(Ev::OfferEnd(p, k, r.is_ok()));
                }
            }
            done[p].store(true, Ordering::SeqCst);
        }));
    }
    let trace = sched::run_threads(RunCfg { prefix, horizon: 6000, record_steps }, bodies);
    let mut v = vec![];
    match &trace.end {
        End::Done => {}
        End::Deadlock(w) => v.push(format!("deadlock (with the shutdown timeouts modelled as never firing): threads blocked at {:?}", w)),
        End::Livelock => v.push("livelock: step horizon exceeded".into()),
        End::Diverged(_) => {}
    }
    for (t, m) in &trace.panics {
        v.push(format!("panic on t{}: {}", t, m));
    }
    let log = shared.log.lock().unwrap().clone();
    let mut obs = String::new();
    if trace.end == End::Done {
        // give the (now free-running) worker thread a moment to finish its return path
        let dropped = counter_slot.lock().unwrap().as_ref().map_or(0, |c| c.dropped_lines());
        judge(sc, &log, dropped, &mut v);
        for e in &log {
            if let Ev::Write(d, ok) = e {
                obs.push_str(&format!("{}{};", d.trim(), if *ok { "" } else { "!" }));
            }
        }
        obs.push_str(&format!("d{}", dropped));
    }
    v.sort();
    v.dedup();
    SResult { trace: Some(trace), violations: v, known: vec![], obs, conflicts: vec![] }
}

fn judge(sc: &Scenario, log: &[Ev], dropped: usize, v: &mut Vec<String>) {
    let gstart = log.iter().position(|e| *e == Ev::GuardDropStart);
    let gend = log.iter().position(|e| *e == Ev::GuardDropEnd);
    let offered: Vec<(usize, usize)> = (0..sc.producers).flat_map(|p| (0..sc.lines).map(move |k| (p, k))).collect();
    let attempts: Vec<(usize, &String, bool)> = log.iter().enumerate().filter_map(|(i, e)| if let Ev::Write(d, ok) = e { Some((i, d, *ok)) } else { None }).collect();
    // 1. every attempt is exactly one whole offered line, at most once
    for (p, k) in &offered {
        let n = attempts.iter().filter(|a| *a.1 == line(*p, *k)).count();
        if n > 1 {
            v.push(format!("line p{}-l{} was handed to the underlying writer {} times", p, k, n));
        }
    }
    for a in &attempts {
        if !offered.iter().any(|(p, k)| *a.1 == line(*p, *k)) {
            v.push(format!("the underlying writer received {:?}, which is not one whole offered line", a.1));
        }
    }
    // 2. per-producer order
    for p in 0..sc.producers {
        let seq: Vec<usize> = attempts.iter().filter_map(|a| (0..sc.lines).find(|k| *a.1 == line(p, *k))).collect();
        if seq.windows(2).any(|w| w[0] > w[1]) {
            v.push(format!("lines of producer {} reached the writer out of order: {:?}", p, seq));
        }
    }
    // 2b. one total order: an offer that returned before another one started is written first
    let pos = |p: usize, k: usize| attempts.iter().find(|a| *a.1 == line(p, k)).map(|a| a.0);
    for (p1, k1) in &offered {
        for (p2, k2) in &offered {
            let e1 = log.iter().position(|e| matches!(e, Ev::OfferEnd(p, k, _) if p == p1 && k == k1));
            let s2 = log.iter().position(|e| matches!(e, Ev::OfferStart(p, k) if p == p2 && k == k2));
            if let (Some(e1), Some(s2), Some(a1), Some(a2)) = (e1, s2, pos(*p1, *k1), pos(*p2, *k2)) {
                if e1 < s2 && a1 > a2 {
                    v.push(format!("p{}-l{} was accepted before p{}-l{} was offered but reached the writer after it", p1, k1, p2, k2));
                }
            }
        }
    }
    // 3./4. accounting for the lines accepted before the guard drop began
    let mut must = 0usize;
    let mut attempted_must = 0usize;
    for (p, k) in &offered {
        let end = log.iter().position(|e| matches!(e, Ev::OfferEnd(pp, kk, _) if pp == p && kk == k));
        let ok = log.iter().any(|e| matches!(e, Ev::OfferEnd(pp, kk, true) if pp == p && kk == k));
        let before_drop = match (end, gstart) {
            (Some(e), Some(g)) => e < g,
            (Some(_), None) => true,
            _ => false,
        };
        if before_drop && ok {
            must += 1;
            let att = pos(*p, *k).is_some();
            if att {
                attempted_must += 1;
            }
            if !sc.lossy && !att {
                v.push(format!("p{}-l{} was accepted (write returned Ok before the guard was dropped) but never reached the underlying writer", p, k));
            }
        }
        if !sc.lossy && sc.guard_after && !ok {
            v.push(format!("non-lossy mode: offering p{}-l{} failed although the worker was alive", p, k));
        }
    }
    if !sc.lossy && dropped != 0 {
        v.push(format!("non-lossy mode reported {} dropped lines", dropped));
    }
    if sc.lossy && sc.guard_after {
        // every offered line is either attempted exactly once or counted as dropped
        let total_attempts = attempts.len();
        if total_attempts + dropped != offered.len() {
            v.push(format!("lossy accounting: {} lines reached the writer + {} reported dropped != {} offered", total_attempts, dropped, offered.len()));
        }
    } else if sc.lossy {
        // lines offered before the drop began: attempted or dropped
        if attempted_must + dropped < must {
            v.push(format!("lossy accounting: of {} lines offered before the guard drop, {} reached the writer and only {} are reported dropped", must, attempted_must, dropped));
        }
    }
    // 5. after the guard drop returned: flushed, writer released
    match gend {
        None => v.push("the guard drop did not return".into()),
        Some(g) => {
            let last_write = log.iter().rposition(|e| matches!(e, Ev::Write(..)));
            let flush_after = |i: usize| log[i..].iter().any(|e| matches!(e, Ev::Flush(_)));
            if let Some(lw) = last_write {
                if !flush_after(lw) {
                    v.push("no flush followed the last write before the worker stopped".into());
                }
            }
            match log.iter().position(|e| *e == Ev::WriterDropped) {
                None => v.push("the underlying writer was not released by the time the guard drop returned".into()),
                Some(d) => {
                    if d > g {
                        v.push("the underlying writer was released only after the guard drop returned".into());
                    }
                    if log[d..].iter().any(|e| matches!(e, Ev::Write(..) | Ev::Flush(_))) {
                        v.push("the writer was used after it was released".into());
                    }
                }
            }
        }
    }
}

pub fn scenarios(tier: Tier) -> Vec<Scenario> {
    let mut v = vec![];
    let masks: Vec<u32> = match tier {
        // every subset of the first 4 writer calls failing
        Tier::Quick => (0..16).collect(),
        Tier::Thorough => (0..64).collect(),
    };
    let shapes: Vec<(usize, usize, usize)> = match tier {
        // (three producers on a queue of one: two of them can be refused at the same moment)
        Tier::Quick => vec![(1, 2, 1), (2, 1, 1), (1, 2, 2), (3, 1, 1)],
        Tier::Thorough => vec![(1, 2, 1), (1, 3, 1), (2, 1, 1), (2, 2, 1), (1, 3, 2), (2, 2, 2), (2, 2, 3), (3, 1, 1)],
    };
    for (producers, lines, capacity) in shapes {
        for lossy in [false, true] {
            for guard_after in [true, false] {
                if !lossy && !guard_after {
                    continue; // see DESIGN: a blocking send racing with the worker's exit is not modelled
                }
                for &m in &masks {
                    if tier == Tier::Quick && producers == 2 && m.count_ones() > 1 {
                        continue;
                    }
                    if tier == Tier::Quick && producers == 3 && (m != 0 || !lossy || !guard_after) {
                        continue;
                    }
                    v.push(Scenario { producers, lines, capacity, lossy, guard_after, fault_mask: m });
                }
            }
        }
    }
    v
}


// ---- blocking-conformance probes ---------------------------------------------------------------------------------
// The schedule exploration models `send` / `send_timeout` as operations that WAIT for queue space
// (their `wait_until` hooks keep the thread disabled while the queue is full). That modelling
// assumption is checked against the real code here, free-running (no scheduler) with a gated writer:
// if the code gives up instead of waiting, accepted lines are lost / left unwritten.

struct GateWriter {
    entered: Arc<AtomicBool>,
    open: Arc<(Mutex<bool>, std::sync::Condvar)>,
    out: Arc<Mutex<Vec<String>>>,
    flushed: Arc<AtomicUsize>,
}
impl Write for GateWriter {
    fn write(&mut self, buf: &[u8]) -> std::io::Result<usize> {
        self.entered.store(true, Ordering::SeqCst);
        let (m, c) = &*self.open;
        let mut g = m.lock().unwrap();
        while !*g {
            g = c.wait(g).unwrap();
        }
        drop(g);
        self.out.lock().unwrap().push(String::from_utf8_lossy(buf).into_owned());
        Ok(buf.len())
    }
    fn flush(&mut self) -> std::io::Result<()> {
        self.flushed.store(self.out.lock().unwrap().len(), Ordering::SeqCst);
        Ok(())
    }
}

/// probe 2: the worker's wait for the next line has no time limit (the scheduler hook models it as
/// a wait for a non-empty queue): a line offered after an idle period is written like any other
fn run_idle_probe() -> Vec<u8> {
    let mut bad: Vec<String> = vec![];
    let out = Arc::new(Mutex::new(vec![]));
    let w = GateWriter { entered: Arc::new(AtomicBool::new(false)), open: Arc::new((Mutex::new(true), std::sync::Condvar::new())), out: out.clone(), flushed: Arc::new(AtomicUsize::new(0)) };
    let (mut nb, guard) = NonBlockingBuilder::default().buffered_lines_limit(4).lossy(false).finish(w);
    let _ = nb.write_all(b"l1\n");
    std::thread::sleep(Duration::from_millis(2500));
    let r = nb.write_all(b"l2\n");
    drop(nb);
    drop(guard);
    let written = out.lock().unwrap().clone();
    if written != ["l1\n", "l2\n"] {
        bad.push(format!("a line offered after 2.5 s without traffic (accepted: {}) while the guard was alive: written {:?}, expected both lines", r.is_ok(), written));
    }
    serde_json::to_vec(&bad).unwrap()
}

pub fn run_probe(job: &[u8]) -> Vec<u8> {
    let which = job.first().copied().unwrap_or(0);
    if which == 2 {
        return run_idle_probe();
    }
    let mut bad: Vec<String> = vec![];
    let entered = Arc::new(AtomicBool::new(false));
    let open = Arc::new((Mutex::new(false), std::sync::Condvar::new()));
    let out = Arc::new(Mutex::new(vec![]));
    let flushed = Arc::new(AtomicUsize::new(0));
    let w = GateWriter { entered: entered.clone(), open: open.clone(), out: out.clone(), flushed: flushed.clone() };
    let (mut nb, guard) = NonBlockingBuilder::default().buffered_lines_limit(1).lossy(which == 0).finish(w);
    let _ = nb.write_all(b"l1\n");
    let t0 = Instant::now();
    while !entered.load(Ordering::SeqCst) && t0.elapsed() < Duration::from_secs(5) {
        std::thread::sleep(Duration::from_millis(1));
    }
    let _ = nb.write_all(b"l2\n"); // the queue (capacity 1) is full now; the worker sits in the writer
    let open_gate = move |after: Duration| {
        let open = open.clone();
        std::thread::spawn(move || {
            std::thread::sleep(after);
            let (m, c) = &*open;
            *m.lock().unwrap() = true;
            c.notify_all();
        })
    };
    if which == 0 {
        // guard dropped while the queue is full; the writer resumes 20 ms later
        drop(nb);
        let h = open_gate(Duration::from_millis(20));
        let t = Instant::now();
        drop(guard);
        let took = t.elapsed();
        let written = out.lock().unwrap().clone();
        let fl = flushed.load(Ordering::SeqCst);
        // (a drop that waited its full 100 ms and then gave up is the documented time-out, not judged)
        if (written != ["l1\n", "l2\n"] || fl != 2) && took < Duration::from_millis(60) {
            bad.push(format!("the queue was full when the guard was dropped and the writer resumed 20 ms later: drop returned after {:?} without waiting for queue space; written {:?}, flushed {} of the 2 accepted lines", took, written, fl));
        }
        let _ = h.join();
    } else {
        // non-lossy: a third line must wait for space, not be dropped
        let started = Arc::new(AtomicBool::new(false));
        let (s2, mut nb2) = (started.clone(), nb.clone());
        let t = std::thread::spawn(move || {
            s2.store(true, Ordering::SeqCst);
            let _ = nb2.write_all(b"l3\n");
        });
        while !started.load(Ordering::SeqCst) {
            std::thread::sleep(Duration::from_millis(1));
        }
        let h = open_gate(Duration::from_millis(50));
        let _ = t.join();
        let _ = h.join();
        drop(nb);
        drop(guard);
        let written = out.lock().unwrap().clone();
        if written != ["l1\n", "l2\n", "l3\n"] {
            bad.push(format!("non-lossy writer with a full queue: the third line did not wait for space; written {:?}", written));
        }
    }
    serde_json::to_vec(&bad).unwrap()
}

pub fn run(args: &Args) -> i32 {
    let mut rep = Report::new(args, "model_checking");
    if let Some(p) = &args.replay {
        let v: serde_json::Value = serde_json::from_str(&std::fs::read_to_string(p).expect("read replay")).expect("json");
        if let Some(w) = v["case"].get("probe").and_then(|x| x.as_u64()) {
            let bad: Vec<String> = match mc::pool::run_isolated(run_probe, &[w as u8], Duration::from_secs(20)) {
                Outcome::Ok(b) => serde_json::from_slice(&b).unwrap_or_default(),
                o => vec![format!("probe did not finish: {:?}", o)],
            };
            for x in &bad {
                println!("VIOLATION property={} replay={} :: {}", args.property, p, x);
            }
            if bad.is_empty() {
                println!("replay: no violation");
            }
            return i32::from(!bad.is_empty());
        }
        let mut job: SJob = serde_json::from_value(v["case"].clone()).unwrap();
        job.record_steps = true;
        let bad = match mc::pool::run_isolated(run_schedule, &serde_json::to_vec(&job).unwrap(), Duration::from_secs(30)) {
            Outcome::Ok(b) => {
                let r: SResult = serde_json::from_slice(&b).unwrap();
                if let Some(t) = &r.trace {
                    for (tid, l) in &t.step_log {
                        println!("  t{} {}", tid, l);
                    }
                }
                r.violations
            }
            o => vec![format!("child {:?}", o)],
        };
        for x in &bad {
            println!("VIOLATION property={} replay={} :: {}", args.property, p, x);
        }
        if bad.is_empty() {
            println!("replay: no violation on this schedule");
        }
        return i32::from(!bad.is_empty());
    }
    for which in [0u8, 1, 2] {
        match mc::pool::run_isolated(run_probe, &[which], Duration::from_secs(20)) {
            Outcome::Ok(b) => {
                for m in serde_json::from_slice::<Vec<String>>(&b).unwrap_or_default() {
                    rep.violation(format!("[blocking-conformance probe {}] {}", which, m), json!({"probe": which}));
                }
            }
            o => rep.violation(format!("[blocking-conformance probe {}] the probe did not finish: {:?} (a send that must wait for queue space hangs or crashes)", which, o), json!({"probe": which})),
        }
    }
    rep.cov("blocking_conformance_probes", 3u64);
    let f9_open = rep.is_open("F9");
    let mut pool = Pool::new(mc::pool::default_workers(), run_schedule, true, Duration::from_secs(30));
    let bound = std::env::var("VERIF_BOUND").ok().and_then(|s| s.parse().ok()).unwrap_or(args.tier.pick(2, 3));
    let scs = scenarios(args.tier);
    let start = Instant::now();
    let budget = Duration::from_secs(args.tier.pick(45, 20 * 60));
    let mut tot = (0u64, 0u64, 0u64);
    let mut capped = false;
    let mut outcomes = 0usize;
    let mut per = vec![];
    for (idx, sc) in scs.iter().enumerate() {
        let left = budget.saturating_sub(start.elapsed());
        let share = (left / (scs.len() - idx) as u32).max(Duration::from_millis(args.tier.pick(4000, 1000)));
        let mut st = Stats::default();
        // (quick tier: the three-producer scenario is explored with one preemption less)
        let sc_bound = if args.tier == Tier::Quick && sc.producers == 3 { if bound > 0 { bound - 1 } else { bound } } else { bound };
        let cfg = ExploreCfg { bound: sc_bound, deadline: Instant::now() + share, max_schedules: u64::MAX, stop_on_violation: true };
        explore(&mut pool, &serde_json::to_string(sc).unwrap(), &cfg, &mut st);
        tot.0 += st.schedules;
        tot.1 += st.tree_nodes;
        tot.2 += st.steps;
        capped |= st.capped;
        outcomes += st.distinct_obs.len();
        if per.len() < 40 {
            per.push(json!({"scenario": sc, "schedules": st.schedules, "distinct_outcomes": st.distinct_obs.len(), "capped": st.capped}));
        }
        for m in st.machinery {
            rep.machinery_error(format!("{:?}: {}", sc, m));
        }
        for (what, job) in st.violations.iter().take(1) {
            // known finding F9: a flush error on the batch that carries Shutdown strands the worker
            if f9_open && what.starts_with("deadlock") && what.contains("appender.worker.recv") && what.contains("appender.guard.rendezvous") {
                rep.known_hit("F9");
                continue;
            }
            rep.violation(format!("[{:?}] {}", sc, what), serde_json::to_value(job).unwrap());
        }
        if idx % 37 == 5 {
            if let Some((job, labels)) = st.sample {
                rep.sample(json!({"scenario": sc, "schedule_choices": job.prefix, "decision_labels": labels}));
            }
        }
    }
    rep.cov("states", tot.1);
    rep.cov("transitions", tot.2);
    rep.cov("traces_validated_against_impl", tot.0);
    rep.cov("schedules", tot.0);
    rep.cov("scenarios", scs.len() as u64);
    rep.cov("preemption_bound", bound as u64);
    if args.tier == Tier::Quick {
        rep.cov("preemption_bound_three_producer_scenario", (bound as u64).saturating_sub(1));
    }
    rep.cov("bound_completed", !capped);
    rep.cov("distinct_outcomes", outcomes as u64);
    rep.cov("scenario_stats_first_40", json!(per));
    rep.cov("explanation", "each scenario = (producers x lines, queue capacity, lossy?, guard dropped after the producers or at any time, fault mask over the first writer calls); producers, the library's own worker thread and the guard holder are real threads under the cooperative scheduler with points at try_send / send / recv / try_recv / the shutdown handshake and at every write_all / flush of the scripted underlying writer; every interleaving up to the preemption bound is executed in a fresh process and judged against the queue model");
    rep.assume("the 100 ms / 1 s timeouts of the guard's shutdown handshake never fire (the underlying writer completes each call in time): a handshake that could only end by timeout is reported as a deadlock");
    rep.assume("a blocking (non-lossy) send racing with the worker's exit is not modelled: in non-lossy scenarios the guard is dropped after the producers");
    rep.assume("the worker's wake-up by channel disconnection (all senders dropped without a guard) is not explored");
    rep.finish()
}
