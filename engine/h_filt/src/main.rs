//! Harness for the layer / filter properties: C07 C08 C09 C11 C12.
mod c07;
mod c08;
mod c09;
mod c11;
mod c12;
mod c09_stacks;
mod rl;
mod stack;

fn main() {
    let args = mc::parse_args();
    let code = match args.property.as_str() {
        "C07" => c07::run(&args),
        "BENCH07" => { c07::bench(); 0 }
        "C08" => c08::run(&args),
        "C09" => c09::run(&args),
        "C11" => c11::run(&args),
        "C12" => c12::run(&args),
        p => {
            eprintln!("h_filt: unknown property {}", p);
            2
        }
    };
    std::process::exit(code);
}
