//! Recorders: a recording layer (every `Subscribe` method), a recording filter (every `Filter`
//! method) and a recording, id-changing collector (every `Collect` method). All log into one
//! process-global, totally ordered log.
use std::sync::atomic::{AtomicU64, Ordering};
use std::sync::Mutex;
use tracing_core::{span, Collect, Dispatch, Event, Interest, LevelFilter, Metadata};
use tracing_subscriber::subscribe::{Context, Filter, Subscribe};

#[derive(Clone, Debug, PartialEq, Eq, serde::Serialize, serde::Deserialize)]
pub struct Rec {
    /// 'L' layer, 'F' filter, 'C' collector
    pub who: char,
    pub id: u8,
    pub kind: String,
    pub what: String,
}

pub static LOG: Mutex<Vec<Rec>> = Mutex::new(Vec::new());

pub fn log(who: char, id: u8, kind: &str, what: &str) {
    LOG.lock().unwrap_or_else(|e| e.into_inner()).push(Rec { who, id, kind: kind.into(), what: what.into() });
}
pub fn log_len() -> usize {
    LOG.lock().unwrap_or_else(|e| e.into_inner()).len()
}
pub fn log_since(n: usize) -> Vec<Rec> {
    LOG.lock().unwrap_or_else(|e| e.into_inner())[n..].to_vec()
}
pub fn clear_log() {
    LOG.lock().unwrap_or_else(|e| e.into_inner()).clear()
}

/// Recording layer. `interest`: 0 never, 1 sometimes, 2 always.
#[derive(Clone, Debug)]
pub struct RL {
    pub id: u8,
    pub interest: u8,
    /// callsite name this layer vetoes in `enabled`
    pub veto_enabled: Option<&'static str>,
    /// event name this layer vetoes in `event_enabled`
    pub veto_event: Option<&'static str>,
    pub hint: Option<LevelFilter>,
}

impl RL {
    pub fn new(id: u8, interest: u8) -> RL {
        RL { id, interest, veto_enabled: None, veto_event: None, hint: None }
    }
}

impl<C: Collect> Subscribe<C> for RL {
    fn on_register_dispatch(&self, _d: &Dispatch) {
        log('L', self.id, "on_register_dispatch", "");
    }
    fn on_subscribe(&mut self, _c: &mut C) {
        log('L', self.id, "on_subscribe", "");
    }
    fn register_callsite(&self, m: &'static Metadata<'static>) -> Interest {
        log('L', self.id, "register_callsite", m.name());
        match self.interest {
            0 => Interest::never(),
            1 => Interest::sometimes(),
            _ => Interest::always(),
        }
    }
    fn enabled(&self, m: &Metadata<'_>, _ctx: Context<'_, C>) -> bool {
        log('L', self.id, "enabled", m.name());
        self.veto_enabled != Some(m.name())
    }
    fn on_new_span(&self, a: &span::Attributes<'_>, id: &span::Id, _ctx: Context<'_, C>) {
        log('L', self.id, "on_new_span", &format!("{}#{}", a.metadata().name(), id.into_u64()));
    }
    fn max_level_hint(&self) -> Option<LevelFilter> {
        self.hint
    }
    fn on_record(&self, id: &span::Id, _v: &span::Record<'_>, _ctx: Context<'_, C>) {
        log('L', self.id, "on_record", &id.into_u64().to_string());
    }
    fn on_follows_from(&self, id: &span::Id, f: &span::Id, _ctx: Context<'_, C>) {
        log('L', self.id, "on_follows_from", &format!("{}->{}", id.into_u64(), f.into_u64()));
    }
    fn event_enabled(&self, e: &Event<'_>, _ctx: Context<'_, C>) -> bool {
        log('L', self.id, "event_enabled", e.metadata().name());
        self.veto_event != Some(e.metadata().name())
    }
    fn on_event(&self, e: &Event<'_>, _ctx: Context<'_, C>) {
        log('L', self.id, "on_event", e.metadata().name());
    }
    fn on_enter(&self, id: &span::Id, _ctx: Context<'_, C>) {
        log('L', self.id, "on_enter", &id.into_u64().to_string());
    }
    fn on_exit(&self, id: &span::Id, _ctx: Context<'_, C>) {
        log('L', self.id, "on_exit", &id.into_u64().to_string());
    }
    fn on_close(&self, id: span::Id, _ctx: Context<'_, C>) {
        log('L', self.id, "on_close", &id.into_u64().to_string());
    }
    fn on_id_change(&self, old: &span::Id, new: &span::Id, _ctx: Context<'_, C>) {
        log('L', self.id, "on_id_change", &format!("{}->{}", old.into_u64(), new.into_u64()));
    }
}

/// Recording filter: accepts everything unless told otherwise.
#[derive(Clone, Debug)]
pub struct RF {
    pub id: u8,
    pub interest: u8,
    pub veto_enabled: Option<&'static str>,
    pub veto_event: Option<&'static str>,
    pub hint: Option<LevelFilter>,
}

impl RF {
    pub fn new(id: u8, interest: u8) -> RF {
        RF { id, interest, veto_enabled: None, veto_event: None, hint: None }
    }
}

impl<C> Filter<C> for RF {
    fn enabled(&self, m: &Metadata<'_>, _cx: &Context<'_, C>) -> bool {
        log('F', self.id, "enabled", m.name());
        self.veto_enabled != Some(m.name())
    }
    fn callsite_enabled(&self, m: &'static Metadata<'static>) -> Interest {
        log('F', self.id, "callsite_enabled", m.name());
        match self.interest {
            0 => Interest::never(),
            1 => Interest::sometimes(),
            _ => Interest::always(),
        }
    }
    fn event_enabled(&self, e: &Event<'_>, _cx: &Context<'_, C>) -> bool {
        log('F', self.id, "event_enabled", e.metadata().name());
        self.veto_event != Some(e.metadata().name())
    }
    fn max_level_hint(&self) -> Option<LevelFilter> {
        log('F', self.id, "max_level_hint", "");
        self.hint
    }
    fn on_new_span(&self, a: &span::Attributes<'_>, _id: &span::Id, _ctx: Context<'_, C>) {
        log('F', self.id, "on_new_span", a.metadata().name());
    }
    fn on_record(&self, _id: &span::Id, _v: &span::Record<'_>, _ctx: Context<'_, C>) {
        log('F', self.id, "on_record", "");
    }
    fn on_enter(&self, _id: &span::Id, _ctx: Context<'_, C>) {
        log('F', self.id, "on_enter", "");
    }
    fn on_exit(&self, _id: &span::Id, _ctx: Context<'_, C>) {
        log('F', self.id, "on_exit", "");
    }
    fn on_close(&self, _id: span::Id, _ctx: Context<'_, C>) {
        log('F', self.id, "on_close", "");
    }
}

/// Recording collector whose `clone_span` hands out a fresh id (so `on_id_change` happens).
#[derive(Debug)]
pub struct RC {
    pub id: u8,
    next: AtomicU64,
    pub interest: u8,
    pub hint: Option<LevelFilter>,
}

impl RC {
    pub fn new(id: u8, interest: u8) -> RC {
        RC { id, next: AtomicU64::new(1), interest, hint: None }
    }
}

impl Collect for RC {
    fn on_register_dispatch(&self, _d: &Dispatch) {
        log('C', self.id, "on_register_dispatch", "");
    }
    fn register_callsite(&self, m: &'static Metadata<'static>) -> Interest {
        log('C', self.id, "register_callsite", m.name());
        match self.interest {
            0 => Interest::never(),
            1 => Interest::sometimes(),
            _ => Interest::always(),
        }
    }
    fn enabled(&self, m: &Metadata<'_>) -> bool {
        log('C', self.id, "enabled", m.name());
        true
    }
    fn max_level_hint(&self) -> Option<LevelFilter> {
        log('C', self.id, "max_level_hint", "");
        self.hint
    }
    fn new_span(&self, a: &span::Attributes<'_>) -> span::Id {
        let id = self.next.fetch_add(1, Ordering::SeqCst);
        log('C', self.id, "new_span", &format!("{}#{}", a.metadata().name(), id));
        span::Id::from_u64(id)
    }
    fn record(&self, id: &span::Id, _v: &span::Record<'_>) {
        log('C', self.id, "record", &id.into_u64().to_string());
    }
    fn record_follows_from(&self, id: &span::Id, f: &span::Id) {
        log('C', self.id, "record_follows_from", &format!("{}->{}", id.into_u64(), f.into_u64()));
    }
    fn event_enabled(&self, e: &Event<'_>) -> bool {
        log('C', self.id, "event_enabled", e.metadata().name());
        true
    }
    fn event(&self, e: &Event<'_>) {
        log('C', self.id, "event", e.metadata().name());
    }
    fn enter(&self, id: &span::Id) {
        log('C', self.id, "enter", &id.into_u64().to_string());
    }
    fn exit(&self, id: &span::Id) {
        log('C', self.id, "exit", &id.into_u64().to_string());
    }
    fn clone_span(&self, id: &span::Id) -> span::Id {
        let new = self.next.fetch_add(1, Ordering::SeqCst);
        log('C', self.id, "clone_span", &format!("{}->{}", id.into_u64(), new));
        span::Id::from_u64(new)
    }
    fn try_close(&self, id: span::Id) -> bool {
        log('C', self.id, "try_close", &id.into_u64().to_string());
        true
    }
    fn current_span(&self) -> span::Current {
        log('C', self.id, "current_span", "");
        span::Current::unknown()
    }
}
