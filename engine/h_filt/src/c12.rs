//! C12 — after a reload returns, every thread filters with the new value.
//! H part: BFS over histories of reloads and emissions (2 threads, sequentially interleaved) for
//! three ways of using a reload handle; S part: every interleaving (preemption-bounded) of
//! reload || emit || emit on the real code under the cooperative scheduler.
use crate::stack::{self, callsites, FilterD, Meta, BF, BS, FL};
use mc::explore::{explore, ExploreCfg, SJob, SResult, Stats};
use mc::pool::{Outcome, Pool};
use mc::sched::{self, End, RunCfg};
use mc::{Args, Report, Tier};
use serde::{Deserialize, Serialize};
use serde_json::json;
use std::collections::{BTreeSet, HashSet};
use std::sync::{Arc, Mutex};
use std::time::{Duration, Instant};
use tracing_core::{Dispatch, LevelFilter};
use tracing_subscriber::filter::Filtered;
use tracing_subscriber::prelude::*;
use tracing_subscriber::registry::Registry;
use tracing_subscriber::reload;

/// how the reload handle is used
#[derive(Clone, Copy, Debug, Serialize, Deserialize, PartialEq, Eq)]
pub enum Kind {
    /// registry().with(reload(global filter layer)).with(L1)
    Global,
    /// registry().with(L1.with_filter(reload(filter))).with(L2 plain)
    PerLayer,
    /// registry().with(reload(L1.with_filter(filter))).with(L2 plain), changed through modify()
    FilteredInside,
    /// registry().with(L1).with(reload(Option<global filter layer>)): an optional global filter on
    /// top of a stack that gives no level hint of its own; reloaded between Some(_) and None
    GlobalOption,
}

type C1 = Registry;

enum Handle {
    Global(reload::Handle<BS<C1>>),
    PerLayer(reload::Handle<BF<C1>>),
    Inside(reload::Handle<Filtered<FL, BF<C1>, C1>>),
    GlobalOption(reload::Handle<Option<BS<C2>>>),
}

type C2 = tracing_subscriber::subscribe::Layered<FL, Registry>;

fn build_global_opt(f: &FilterD) -> Option<BS<C2>> {
    match f {
        FilterD::None_ => None,
        f => Some(stack::build_node::<C2>(&stack::Node::G(f.clone()))),
    }
}

fn build_global(f: &FilterD) -> BS<C1> {
    stack::build_node::<C1>(&stack::Node::G(f.clone()))
}

fn build(kind: Kind, f: &FilterD) -> (Dispatch, Handle) {
    match kind {
        Kind::Global => {
            let (l, h) = reload::Subscriber::new(build_global(f));
            (Dispatch::new(Registry::default().with(l).with(FL { id: 1 })), Handle::Global(h))
        }
        Kind::PerLayer => {
            let (rf, h) = reload::Subscriber::new(stack::build_filter::<C1>(f));
            (Dispatch::new(Registry::default().with(FL { id: 1 }.with_filter(rf)).with(FL { id: 2 })), Handle::PerLayer(h))
        }
        Kind::FilteredInside => {
            let (l, h) = reload::Subscriber::new(FL { id: 1 }.with_filter(stack::build_filter::<C1>(f)));
            (Dispatch::new(Registry::default().with(l).with(FL { id: 2 })), Handle::Inside(h))
        }
        Kind::GlobalOption => {
            let (l, h) = reload::Subscriber::new(build_global_opt(f));
            (Dispatch::new(Registry::default().with(FL { id: 1 }).with(l)), Handle::GlobalOption(h))
        }
    }
}

fn do_reload(h: &Handle, f: &FilterD) -> Result<(), String> {
    match h {
        Handle::Global(h) => h.reload(build_global(f)).map_err(|e| format!("{} (is_dropped={})", e, e.is_dropped())),
        Handle::PerLayer(h) => h.reload(stack::build_filter::<C1>(f)).map_err(|e| format!("{} (is_dropped={})", e, e.is_dropped())),
        Handle::Inside(h) => h.modify(|fl| *fl.filter_mut() = stack::build_filter::<C1>(f)).map_err(|e| format!("{} (is_dropped={})", e, e.is_dropped())),
        Handle::GlobalOption(h) => h.reload(build_global_opt(f)).map_err(|e| format!("{} (is_dropped={})", e, e.is_dropped())),
    }
}

/// reload through `modify` (what `reload` itself does), noting inside the closure - i.e. while the
/// write lock is held - who wrote, so that the last writer is known when two reloads overlap
fn do_modify_marked(h: &Handle, f: &FilterD, order: &Mutex<Vec<u8>>, who: u8) -> Result<(), String> {
    let note = || order.lock().unwrap().push(who);
    match h {
        Handle::Global(h) => h.modify(|l| {
            note();
            *l = build_global(f)
        }),
        Handle::PerLayer(h) => h.modify(|x| {
            note();
            *x = stack::build_filter::<C1>(f)
        }),
        Handle::Inside(h) => h.modify(|fl| {
            note();
            *fl.filter_mut() = stack::build_filter::<C1>(f)
        }),
        Handle::GlobalOption(h) => h.modify(|l| {
            note();
            *l = build_global_opt(f)
        }),
    }
    .map_err(|e| format!("{} (is_dropped={})", e, e.is_dropped()))
}

/// which layers receive `m` when the reloadable filter currently is `f`
fn receivers(kind: Kind, f: &FilterD, m: &Meta, ctx: &[&'static str]) -> Vec<u8> {
    let ok = f.accepts(m, ctx);
    match kind {
        Kind::Global | Kind::GlobalOption => {
            if ok {
                vec![1]
            } else {
                vec![]
            }
        }
        _ => {
            if ok {
                vec![1, 2]
            } else {
                vec![2]
            }
        }
    }
}

/// the max-level hint the filter value publishes (None = no hint)
fn hint_of(f: &FilterD) -> Option<u8> {
    let lv = |x: &str| match x {
        "off" => 0,
        "error" => 1,
        "warn" => 2,
        "info" => 3,
        "debug" => 4,
        _ => 5,
    };
    match f {
        FilterD::Lv(r) => Some(*r),
        FilterD::Tg(s) | FilterD::Env(s) => s.split(',').filter(|p| !p.is_empty()).map(|p| lv(p.rsplit('=').next().unwrap())).max(),
        FilterD::EnvSp => Some(5),
        FilterD::Fn(_, h) | FilterD::Dyn(_, h) => *h,
        _ => None,
    }
}

/// Known finding F17: a Filtered subscriber inside reload::Subscriber is not recognised as
/// per-layer-filtered (reload does not forward the PSF downcast marker), so its filter's
/// max-level hint is applied to the whole stack: emissions above it reach nobody.
fn receivers_f17(kind: Kind, f: &FilterD, m: &Meta, ctx: &[&'static str]) -> Option<Vec<u8>> {
    if kind != Kind::FilteredInside {
        return None;
    }
    match hint_of(f) {
        Some(h) if m.level > h => Some(vec![]),
        _ => None,
    }
}

pub fn values(tier: Tier) -> Vec<FilterD> {
    use FilterD::*;
    let mut v = vec![Lv(1), Lv(3), Lv(5), Tg("a=trace".into()), Env("warn,b=trace".into())];
    if tier == Tier::Thorough {
        v.extend([Lv(0), Tg("b=info,a=error".into()), Env("a=debug".into()), EnvSp]);
    }
    v
}

/// values usable when the filter is a per-layer filter (adds None and closures)
pub fn values_for(kind: Kind, tier: Tier) -> Vec<FilterD> {
    let mut v = values(tier);
    if kind == Kind::GlobalOption {
        v.push(FilterD::None_);
        return v;
    }
    if kind != Kind::Global {
        v.push(FilterD::None_);
        v.push(FilterD::Fn(0, None));
        if tier == Tier::Thorough {
            v.push(FilterD::Dyn(0, None));
        }
    }
    v
}

// ---- H part -----------------------------------------------------------------------------------------

#[derive(Clone, Debug, Serialize, Deserialize)]
pub struct HCfg {
    #[serde(default)]
    pub f17_open: bool,
    pub kind: Kind,
    pub initial: usize,
    pub depth: usize,
    pub tier_thorough: bool,
}

#[derive(Clone, Debug, Serialize, Deserialize, Default)]
pub struct HRes {
    #[serde(default)]
    pub f17: u64,
    pub states: u64,
    pub transitions: u64,
    pub violations: Vec<(Vec<String>, String)>,
    pub outcomes: BTreeSet<String>,
    pub sample: Vec<String>,
}

enum Cmd {
    Ev(usize),
    Open(usize),
    Close,
    Quit,
}

struct Th {
    tx: std::sync::mpsc::Sender<Cmd>,
    rx: std::sync::mpsc::Receiver<Option<String>>,
    handle: Option<std::thread::JoinHandle<()>>,
}

fn spawn(t: u64, d: Dispatch) -> Th {
    let (ctx, crx) = std::sync::mpsc::channel::<Cmd>();
    let (rtx, rrx) = std::sync::mpsc::channel::<Option<String>>();
    let handle = std::thread::spawn(move || {
        stack::HTID.with(|x| x.set(t));
        let g = tracing_core::dispatch::set_default(&d);
        drop(d);
        let cs = callsites();
        let mut open: Vec<tracing::span::EnteredSpan> = vec![];
        while let Ok(cmd) = crx.recv() {
            if let Cmd::Quit = cmd {
                break;
            }
            let r = std::panic::catch_unwind(std::panic::AssertUnwindSafe(|| match cmd {
                Cmd::Ev(i) => (cs[i].emit)(),
                Cmd::Open(i) => open.push((cs[i].open)().entered()),
                Cmd::Close => drop(open.pop()),
                Cmd::Quit => {}
            }));
            let msg = r.err().map(|e| e.downcast_ref::<String>().cloned().or_else(|| e.downcast_ref::<&str>().map(|s| s.to_string())).unwrap_or_default());
            if rtx.send(msg).is_err() {
                break;
            }
        }
        while let Some(s) = open.pop() {
            drop(s);
        }
        drop(g);
    });
    Th { tx: ctx, rx: rrx, handle: Some(handle) }
}

struct StepOut {
    f17: u64,
    key: String,
    next: Vec<String>,
    violations: Vec<String>,
    obs: String,
}

fn run_history(cfg: &HCfg, history: &[String]) -> StepOut {
    let tier = if cfg.tier_thorough { Tier::Thorough } else { Tier::Quick };
    let vals = values_for(cfg.kind, tier);
    let cs = callsites();
    let mut cur = cfg.initial;
    let (d, handle) = build(cfg.kind, &vals[cur]);
    let mut threads: Vec<Option<Th>> = (0..2).map(|t| Some(spawn(t, d.clone()))).collect();
    let mut d = Some(d);
    let mut alive = true;
    let mut spans: Vec<Vec<(usize, Vec<u8>)>> = vec![vec![], vec![]];
    // spans the *current* filter value saw being created and entered: a span-scoped EnvFilter put in
    // place by a reload has no record of the spans that were already open ("judged by the new
    // filter" means by that filter's own state)
    let mut seen_by_filter: Vec<Vec<bool>> = vec![vec![], vec![]];
    let mut out = StepOut { f17: 0, key: String::new(), next: vec![], violations: vec![], obs: String::new() };
    for (step, op) in history.iter().enumerate() {
        let p: Vec<&str> = op.split(':').collect();
        let n0 = stack::flog_len();
        let mut fail = |m: String| out.violations.push(format!("step {} ({}): {}", step, op, m));
        match p[0] {
            "reload" => {
                let i: usize = p[1].parse().unwrap();
                let r = do_reload(&handle, &vals[i]);
                match (alive, &r) {
                    (true, Ok(())) => {
                        cur = i;
                        for f in seen_by_filter.iter_mut().flat_map(|v| v.iter_mut()) {
                            *f = false;
                        }
                    }
                    (true, Err(e)) => fail(format!("reload on a live collector failed: {}", e)),
                    (false, Ok(())) => fail("reload succeeded although the collector is gone".into()),
                    (false, Err(e)) => {
                        if !e.contains("is_dropped=true") {
                            fail(format!("handle of a dropped collector reported {}", e))
                        }
                    }
                }
                out.obs = format!("reload->{}", r.is_ok());
            }
            "dropc" => {
                for t in threads.iter_mut() {
                    if let Some(mut th) = t.take() {
                        let _ = th.tx.send(Cmd::Quit);
                        if let Some(h) = th.handle.take() {
                            let _ = h.join();
                        }
                    }
                }
                d = None;
                alive = false;
            }
            _ => {
                let t: usize = p[0].parse().unwrap();
                let th = threads[t].as_ref().unwrap();
                let vis = |l: u8, sp: &Vec<(usize, Vec<u8>)>| -> Vec<&'static str> { sp.iter().filter(|s| s.1.contains(&l)).map(|s| cs[s.0].meta.name).collect() };
                // the reloadable filter belongs to layer 1 (or is global): its context is what layer 1 sees
                // a span-scoped EnvFilter decides from its own record of entered spans (only those it saw);
                // context-dependent closures ask the registry, which knows every span
                let own_state = matches!(vals[cur], FilterD::EnvSp);
                let known: Vec<(usize, Vec<u8>)> = spans[t].iter().zip(seen_by_filter[t].iter()).filter(|(_, k)| **k || !own_state).map(|(s, _)| s.clone()).collect();
                let ctx: Vec<&'static str> = if matches!(cfg.kind, Kind::Global | Kind::GlobalOption) { known.iter().filter(|s| !s.1.is_empty()).map(|s| cs[s.0].meta.name).collect() } else { vis(1, &known) };
                match p[1] {
                    "ev" => {
                        let i: usize = p[2].parse().unwrap();
                        let want = receivers(cfg.kind, &vals[cur], &cs[i].meta, &ctx);
                        th.tx.send(Cmd::Ev(i)).unwrap();
                        if let Ok(Some(m)) = th.rx.recv() {
                            fail(format!("panic: {}", m));
                        }
                        let got: Vec<u8> = {
                            let mut g: Vec<u8> = stack::flog_since(n0).iter().filter(|e| e.kind == "event").map(|e| e.layer).collect();
                            g.sort();
                            g
                        };
                        if got != want {
                            let alt = receivers_f17(cfg.kind, &vals[cur], &cs[i].meta, &ctx);
                            if cfg.f17_open && alt.as_ref() == Some(&got) {
                                out.f17 += 1;
                            } else {
                                fail(format!("event {} reached layers {:?}; the current filter value {} says {:?}", cs[i].meta.name, got, vals[cur].short(), want));
                            }
                        }
                        out.obs = format!("ev->{:?}", got);
                    }
                    "open" => {
                        let i: usize = p[2].parse().unwrap();
                        let want = receivers(cfg.kind, &vals[cur], &cs[i].meta, &ctx);
                        th.tx.send(Cmd::Open(i)).unwrap();
                        if let Ok(Some(m)) = th.rx.recv() {
                            fail(format!("panic: {}", m));
                        }
                        let log = stack::flog_since(n0);
                        let mut want = want;
                        if cfg.f17_open && log.is_empty() && receivers_f17(cfg.kind, &vals[cur], &cs[i].meta, &ctx).is_some() && !want.is_empty() {
                            out.f17 += 1;
                            want = vec![];
                        }
                        for l in [1u8, 2u8] {
                            let kinds: Vec<&str> = log.iter().filter(|e| e.layer == l).map(|e| e.kind.as_str()).collect();
                            let exp: Vec<&str> = if want.contains(&l) { vec!["new_span", "enter"] } else { vec![] };
                            if kinds != exp {
                                fail(format!("span {} : layer {} saw {:?}, the current filter value {} says {:?}", cs[i].meta.name, l, kinds, vals[cur].short(), exp));
                            }
                        }
                        spans[t].push((i, want));
                        seen_by_filter[t].push(true);
                    }
                    _ => {
                        // close: a span's later notifications follow the verdict it got when it was created
                        let (i, vis_l) = spans[t].pop().unwrap();
                        seen_by_filter[t].pop();
                        th.tx.send(Cmd::Close).unwrap();
                        if let Ok(Some(m)) = th.rx.recv() {
                            fail(format!("panic: {}", m));
                        }
                        let log = stack::flog_since(n0);
                        for l in [1u8, 2u8] {
                            let kinds: Vec<&str> = log.iter().filter(|e| e.layer == l).map(|e| e.kind.as_str()).collect();
                            let exp: Vec<&str> = if vis_l.contains(&l) { vec!["exit", "close"] } else { vec![] };
                            if kinds != exp {
                                fail(format!("closing span {} : layer {} saw {:?}, expected {:?}", cs[i].meta.name, l, kinds, exp));
                            }
                        }
                    }
                }
            }
        }
        if !out.violations.is_empty() {
            break;
        }
    }
    // the published maximum level never hides something the new value accepts: covered by the
    // delivery checks above; record it in the key (it is hidden state for the future)
    let maxl = LevelFilter::current();
    out.key = format!("{}|{}|{:?}|{:?}|{}", cur, alive, spans, seen_by_filter, maxl);
    if alive {
        for t in 0..2 {
            for i in [0usize, 1, 2, 4, 5] {
                out.next.push(format!("{}:ev:{}", t, i));
            }
            if spans[t].is_empty() {
                out.next.push(format!("{}:open:6", t));
                out.next.push(format!("{}:open:7", t));
            } else {
                out.next.push(format!("{}:close", t));
            }
        }
        if spans.iter().all(|s| s.is_empty()) {
            out.next.push("dropc".into());
        }
    }
    for i in 0..vals.len() {
        if i != cur || !alive {
            out.next.push(format!("reload:{}", i));
        }
    }
    for t in threads.iter_mut() {
        if let Some(mut th) = t.take() {
            let _ = th.tx.send(Cmd::Quit);
            if let Some(h) = th.handle.take() {
                let _ = h.join();
            }
        }
    }
    drop(d);
    out
}

fn explore_h(cfg: &HCfg) -> HRes {
    let mut res = HRes::default();
    let mut seen: HashSet<String> = HashSet::new();
    let mut level: Vec<Vec<String>> = vec![vec![]];
    for depth in 0..=cfg.depth {
        let mut next_level = vec![];
        for h in &level {
            stack::flog_clear();
            let r = run_history(cfg, h);
            res.transitions += 1;
            res.f17 += r.f17;
            res.outcomes.insert(r.obs.clone());
            if !r.violations.is_empty() {
                if res.violations.len() < 3 {
                    res.violations.push((h.clone(), r.violations.join(" ;; ")));
                }
                continue;
            }
            if seen.insert(r.key.clone()) {
                res.states += 1;
                if res.sample.is_empty() && h.len() >= 3 {
                    res.sample = h.clone();
                }
                if depth < cfg.depth {
                    for op in &r.next {
                        let mut nh = h.clone();
                        nh.push(op.clone());
                        next_level.push(nh);
                    }
                }
            }
        }
        if !res.violations.is_empty() {
            break;
        }
        level = next_level;
    }
    res
}

fn warm_up() {
    let d = stack::build_stack(&[stack::Node::L(1)]);
    tracing_core::dispatch::with_default(&d, || {
        for c in callsites() {
            (c.emit)();
            drop((c.open)());
        }
    });
    stack::flog_clear();
}

fn h_runner(job: &[u8]) -> Vec<u8> {
    static WARM: std::sync::Once = std::sync::Once::new();
    WARM.call_once(warm_up);
    let cfg: HCfg = serde_json::from_slice(job).unwrap();
    serde_json::to_vec(&explore_h(&cfg)).unwrap()
}

// ---- S part -----------------------------------------------------------------------------------------

#[derive(Clone, Debug, Serialize, Deserialize)]
pub struct Scenario {
    #[serde(default)]
    pub f17_open: bool,
    pub name: String,
    pub kind: Kind,
    pub old: FilterD,
    pub new: FilterD,
    /// callsite indexes hit once by the controller before the race (so their interest is cached)
    pub warm: Vec<usize>,
    /// per emitting thread: list of (is_span, callsite index)
    pub emitters: Vec<Vec<(bool, usize)>>,
    /// the reloading thread is the last one in the default order (so that, by default, the
    /// emitters' first hits come first and race with each other)
    #[serde(default)]
    pub reload_last: bool,
    /// a second, concurrent reload (to this value) on its own thread
    #[serde(default)]
    pub second: Option<FilterD>,
}

#[derive(Clone, Debug)]
struct Mark {
    at: usize,
    what: String,
    tid: usize,
    cs: usize,
}

pub fn run_schedule(job: &[u8]) -> Vec<u8> {
    let job: SJob = serde_json::from_slice(job).unwrap();
    let sc: Scenario = serde_json::from_str(&job.scenario).unwrap();
    serde_json::to_vec(&run_scenario(&sc, job.prefix.clone(), job.record_steps)).unwrap()
}

fn run_scenario(sc: &Scenario, prefix: Vec<u8>, record_steps: bool) -> SResult {
    sched::install_hooks();
    let cs = callsites();
    let (d, handle) = build(sc.kind, &sc.old);
    tracing_core::dispatch::with_default(&d, || {
        for i in &sc.warm {
            (cs[*i].emit)();
            drop((cs[*i].open)());
        }
    });
    stack::flog_clear();
    let marks: Arc<Mutex<Vec<Mark>>> = Arc::new(Mutex::new(vec![]));
    let handle = Arc::new(handle);
    let order: Arc<Mutex<Vec<u8>>> = Arc::new(Mutex::new(vec![]));
    let mut bodies: Vec<Box<dyn FnOnce() + Send>> = vec![];
    {
        let (h, m, new) = (handle.clone(), marks.clone(), sc.new.clone());
        let (order1, two) = (order.clone(), sc.second.is_some());
        bodies.push(Box::new(move || {
            m.lock().unwrap().push(Mark { at: stack::flog_len(), what: "reload.start".into(), tid: 0, cs: 0 });
            let r = if two { do_modify_marked(&h, &new, &order1, 0) } else { do_reload(&h, &new) };
            m.lock().unwrap().push(Mark { at: stack::flog_len(), what: if r.is_ok() { "reload.done".into() } else { "reload.err".into() }, tid: 0, cs: 0 });
        }));
    }
    if let Some(second) = sc.second.clone() {
        let (h, order2, m) = (handle.clone(), order.clone(), marks.clone());
        bodies.push(Box::new(move || {
            if do_modify_marked(&h, &second, &order2, 1).is_err() {
                m.lock().unwrap().push(Mark { at: stack::flog_len(), what: "reload.err".into(), tid: 0, cs: 0 });
            }
        }));
    }
    for (k, ems) in sc.emitters.iter().enumerate() {
        let (d, m, ems) = (d.clone(), marks.clone(), ems.clone());
        let tid = k + 1;
        bodies.push(Box::new(move || {
            stack::HTID.with(|x| x.set(tid as u64));
            let cs = callsites();
            let _g = tracing_core::dispatch::set_default(&d);
            for (is_span, i) in ems {
                m.lock().unwrap().push(Mark { at: stack::flog_len(), what: "emit.start".into(), tid, cs: i });
                if is_span {
                    let s = (cs[i].open)();
                    let e = s.entered();
                    drop(e);
                } else {
                    (cs[i].emit)();
                }
                m.lock().unwrap().push(Mark { at: stack::flog_len(), what: "emit.end".into(), tid, cs: i });
            }
        }));
    }
    if sc.reload_last {
        bodies.rotate_left(1);
    }
    let trace = sched::run_threads(RunCfg { prefix, horizon: 6000, record_steps }, bodies);
    let mut v = vec![];
    match &trace.end {
        End::Done => {}
        End::Deadlock(w) => v.push(format!("deadlock: threads blocked at {:?}", w)),
        End::Livelock => v.push("livelock".into()),
        End::Diverged(_) => {}
    }
    for (t, m) in &trace.panics {
        v.push(format!("panic on t{}: {}", t, m));
    }
    let log = stack::flog_since(0);
    let marks = marks.lock().unwrap().clone();
    let mut obs = String::new();
    let mut known: Vec<String> = vec![];
    if trace.end == End::Done {
        let rstart = marks.iter().find(|m| m.what == "reload.start").map(|m| m.at).unwrap_or(0);
        let rdone = marks.iter().find(|m| m.what == "reload.done").map(|m| m.at);
        if marks.iter().any(|m| m.what == "reload.err") {
            v.push("reload on a live collector returned an error".into());
        }
        // with two overlapping reloads the value in force afterwards is the one written last
        let final_value: FilterD = match (&sc.second, order.lock().unwrap().last()) {
            (Some(second), Some(1)) => second.clone(),
            _ => sc.new.clone(),
        };
        let mut i = 0;
        while i < marks.len() {
            if marks[i].what == "emit.start" && sc.second.is_none() {
                let s = &marks[i];
                let e = marks[i + 1..].iter().find(|m| m.what == "emit.end" && m.tid == s.tid).unwrap();
                let meta = &cs[s.cs].meta;
                let mine: Vec<&stack::FEv> = log[s.at..e.at].iter().filter(|x| x.tid == s.tid as u64).collect();
                let view = |l: u8| -> Vec<&str> { mine.iter().filter(|x| x.layer == l).map(|x| x.kind.as_str()).collect() };
                let full: Vec<&str> = if meta.is_span { vec!["new_span", "enter", "exit", "close"] } else { vec!["event"] };
                let verdict = |f: &FilterD| -> Vec<u8> { receivers(sc.kind, f, meta, &[]) };
                // acceptable verdicts of a value: the property's, and (while F17 is open) the listed failure's
                let acceptable = |f: &FilterD| -> Vec<Vec<u8>> {
                    let mut a = vec![verdict(f)];
                    if sc.f17_open {
                        if let Some(r) = receivers_f17(sc.kind, f, meta, &[]) {
                            if !a.contains(&r) {
                                a.push(r);
                            }
                        }
                    }
                    a
                };
                let (old_a, new_a) = (acceptable(&sc.old), acceptable(&sc.new));
                // position relative to the reload: the marks vector is a total order of the execution
                let pos_start = marks.iter().position(|m| m.what == "reload.start").unwrap_or(usize::MAX);
                let pos_done = marks.iter().position(|m| m.what == "reload.done");
                let end_idx = i + 1 + marks[i + 1..].iter().position(|m| m.what == "emit.end" && m.tid == s.tid).unwrap();
                let after = pos_done.map_or(false, |d| i > d);
                let before = end_idx < pos_start;
                let got: Vec<u8> = [1u8, 2u8].into_iter().filter(|l| !view(*l).is_empty()).collect();
                for l in [1u8, 2u8] {
                    let vw = view(l);
                    if !vw.is_empty() && vw != full {
                        v.push(format!("t{} {} {}: layer {} saw a partial lifecycle {:?}", s.tid, if meta.is_span { "span" } else { "event" }, meta.name, l, vw));
                    }
                }
                let ok = if after {
                    new_a.contains(&got)
                } else if before {
                    old_a.contains(&got)
                } else {
                    old_a.contains(&got) || new_a.contains(&got)
                };
                if !ok {
                    v.push(format!(
                        "t{} emitted {} {} the reload: layers {:?}; old value {} says {:?}, new value {} says {:?}",
                        s.tid,
                        meta.name,
                        if after { "after" } else if before { "before" } else { "during" },
                        got,
                        sc.old.short(),
                        old_a[0],
                        sc.new.short(),
                        new_a[0]
                    ));
                } else if got != verdict(if after { &sc.new } else { &sc.old }) && got != verdict(&sc.new) && got != verdict(&sc.old) {
                    known.push("F17".to_string());
                }
                obs.push_str(&format!("t{}:{}={:?};", s.tid, meta.name, got));
            }
            i += 1;
        }
        // quiescence: afterwards every callsite is judged by the new value
        let n0 = stack::flog_len();
        tracing_core::dispatch::with_default(&d, || {
            for (k, c) in cs.iter().enumerate().take(6) {
                let a = stack::flog_len();
                (c.emit)();
                let got: Vec<u8> = {
                    let mut g: Vec<u8> = stack::flog_since(a).iter().filter(|e| e.kind == "event").map(|e| e.layer).collect();
                    g.sort();
                    g
                };
                let mut want = receivers(sc.kind, &final_value, &c.meta, &[]);
                if sc.f17_open {
                    if let Some(r) = receivers_f17(sc.kind, &final_value, &c.meta, &[]) {
                        want = r;
                    }
                }
                if got != want {
                    v.push(format!("after the race, event {} (#{}) reaches {:?}; the new value {} says {:?}", c.meta.name, k, got, final_value.short(), want));
                }
            }
        });
        let _ = n0;
    }
    v.sort();
    v.dedup();
    known.sort();
    known.dedup();
    SResult { trace: Some(trace), violations: v, known, obs, conflicts: vec![] }
}

pub fn scenarios(tier: Tier) -> Vec<Scenario> {
    use FilterD::*;
    let mut v = vec![];
    let pairs: Vec<(FilterD, FilterD)> = vec![(Lv(1), Lv(5)), (Lv(5), Lv(1)), (Tg("a=trace".into()), Tg("b=trace".into()))];
    for kind in [Kind::Global, Kind::PerLayer, Kind::FilteredInside] {
        for (old, new) in &pairs {
            // t1: a callsite whose verdict is cached (warm); t2: a first hit of another callsite and a span
            v.push(Scenario {
                f17_open: false,
                name: format!("{:?} {}->{} cached event || first-hit event", kind, old.short(), new.short()),
                kind,
                old: old.clone(),
                new: new.clone(),
                warm: vec![1],
                emitters: vec![vec![(false, 1)], vec![(false, 4)]],
                reload_last: false,
                second: None,
            });
            // two first hits of different callsites race with each other; the reload comes last by default
            if tier == Tier::Thorough || kind != Kind::FilteredInside {
            v.push(Scenario {
                f17_open: false,
                name: format!("{:?} {}->{} first-hit event || first-hit event || reload (last)", kind, old.short(), new.short()),
                kind,
                old: old.clone(),
                new: new.clone(),
                warm: vec![],
                emitters: vec![vec![(false, 4)], vec![(false, 2)]],
                reload_last: true,
                second: None,
            });
            }
            // two overlapping reloads (old -> new || old -> back to old's opposite) and an emitter
            if tier == Tier::Thorough || kind != Kind::Global {
            v.push(Scenario {
                f17_open: false,
                name: format!("{:?} {}->{} || ->{} two reloads || cached event", kind, old.short(), new.short(), old.short()),
                kind,
                old: old.clone(),
                new: new.clone(),
                warm: vec![1, 4],
                emitters: vec![vec![(false, 1)]],
                reload_last: false,
                second: Some(old.clone()),
            });
            }
            if tier == Tier::Thorough || kind != Kind::Global {
                v.push(Scenario {
                    f17_open: false,
                    name: format!("{:?} {}->{} span lifecycle || cached event", kind, old.short(), new.short()),
                    kind,
                    old: old.clone(),
                    new: new.clone(),
                    warm: vec![1, 6],
                    emitters: vec![vec![(true, 6)], vec![(false, 1), (false, 1)]],
                    reload_last: false,
                    second: None,
                });
            }
        }
    }
    v
}

pub fn run(args: &Args) -> i32 {
    if let Some(p) = &args.replay {
        let v: serde_json::Value = serde_json::from_str(&std::fs::read_to_string(p).expect("read replay")).expect("json");
        if v["case"].get("history").is_some() {
            let cfg: HCfg = serde_json::from_value(v["case"]["cfg"].clone()).unwrap();
            let h: Vec<String> = serde_json::from_value(v["case"]["history"].clone()).unwrap();
            warm_up();
            let r = run_history(&cfg, &h);
            println!("cfg {:?} history {:?}", cfg, h);
            for x in &r.violations {
                println!("VIOLATION property={} replay={} :: {}", args.property, p, x);
            }
            if r.violations.is_empty() {
                println!("replay: no violation");
            }
            return i32::from(!r.violations.is_empty());
        }
        let mut job: SJob = serde_json::from_value(v["case"].clone()).expect("case");
        job.record_steps = true;
        let bytes = serde_json::to_vec(&job).unwrap();
        return match mc::pool::run_isolated(run_schedule, &bytes, Duration::from_secs(30)) {
            Outcome::Ok(b) => {
                let r: SResult = serde_json::from_slice(&b).unwrap();
                if let Some(t) = &r.trace {
                    for (tid, l) in &t.step_log {
                        println!("  t{} {}", tid, l);
                    }
                }
                for x in &r.violations {
                    println!("VIOLATION property={} replay={} :: {}", args.property, p, x);
                }
                if r.violations.is_empty() {
                    println!("replay: no violation on this schedule");
                }
                i32::from(!r.violations.is_empty())
            }
            o => {
                println!("VIOLATION property={} replay={} :: child {:?}", args.property, p, o);
                1
            }
        };
    }
    let mut rep = Report::new(args, "model_checking");
    let f17_open = rep.is_open("F17");
    // ---- H ----
    let depth = std::env::var("VERIF_DEPTH").ok().and_then(|s| s.parse().ok()).unwrap_or(args.tier.pick(4, 6));
    let mut hjobs = vec![];
    for kind in [Kind::Global, Kind::PerLayer, Kind::FilteredInside, Kind::GlobalOption] {
        for initial in 0..values_for(kind, args.tier).len() {
            hjobs.push(HCfg { f17_open, kind, initial, depth, tier_thorough: args.tier == Tier::Thorough });
        }
    }
    let (mut hstates, mut htrans) = (0u64, 0u64);
    {
        let mut pool = Pool::new(mc::pool::default_workers(), h_runner, false, Duration::from_secs(900));
        let bytes: Vec<Vec<u8>> = hjobs.iter().map(|j| serde_json::to_vec(j).unwrap()).collect();
        let mut results = vec![];
        let mut crashed = vec![];
        pool.run_list(bytes, |job, out| {
            let cfg: HCfg = serde_json::from_slice(job).unwrap();
            match out {
                Outcome::Ok(b) => results.push((cfg, serde_json::from_slice::<HRes>(&b).unwrap())),
                o => crashed.push((cfg, format!("{:?}", o))),
            }
        });
        for (cfg, o) in crashed {
            rep.violation(format!("history exploration crashed: {}", o), json!({"cfg": cfg, "history": []}));
        }
        results.sort_by_key(|(c, _)| serde_json::to_string(c).unwrap());
        for (cfg, r) in &results {
            hstates += r.states;
            htrans += r.transitions;
            for _ in 0..r.f17 {
                rep.known_hit("F17");
            }
            for (h, m) in &r.violations {
                rep.violation(format!("[{:?} initial {}] {}", cfg.kind, values_for(cfg.kind, args.tier)[cfg.initial].short(), m), json!({"cfg": cfg, "history": h}));
            }
            if !r.sample.is_empty() {
                rep.sample(json!({"kind": format!("{:?}", cfg.kind), "initial": values_for(cfg.kind, args.tier)[cfg.initial].short(), "history": r.sample}));
            }
        }
    }
    // ---- S ----
    let mut pool = Pool::new(mc::pool::default_workers(), run_schedule, true, Duration::from_secs(30));
    let bound = std::env::var("VERIF_BOUND").ok().and_then(|s| s.parse().ok()).unwrap_or(args.tier.pick(2, 3));
    let scs: Vec<Scenario> = scenarios(args.tier).into_iter().map(|mut s| {
        s.f17_open = f17_open;
        s
    }).collect();
    let mut tot = (0u64, 0u64, 0u64);
    let mut per = vec![];
    let mut capped = false;
    let start = Instant::now();
    let budget = Duration::from_secs(args.tier.pick(50, 20 * 60));
    for (idx, sc) in scs.iter().enumerate() {
        let left = budget.saturating_sub(start.elapsed());
        let share = (left / (scs.len() - idx) as u32).max(Duration::from_secs(1));
        let mut st = Stats::default();
        let cfg = ExploreCfg { bound, deadline: Instant::now() + share, max_schedules: u64::MAX, stop_on_violation: true };
        explore(&mut pool, &serde_json::to_string(sc).unwrap(), &cfg, &mut st);
        tot.0 += st.schedules;
        tot.1 += st.tree_nodes;
        tot.2 += st.steps;
        capped |= st.capped;
        per.push(json!({"scenario": sc.name, "schedules": st.schedules, "by_preemptions": st.by_cost, "distinct_outcomes": st.distinct_obs.len(), "capped": st.capped, "unexplored_prefixes": st.leftover}));
        for m in st.machinery {
            rep.machinery_error(format!("{}: {}", sc.name, m));
        }
        for (k, n) in &st.known {
            for _ in 0..*n {
                rep.known_hit(k);
            }
        }
        for (what, job) in st.violations.iter().take(2) {
            rep.violation(format!("[{}] {}", sc.name, what), serde_json::to_value(job).unwrap());
        }
    }
    rep.cov("states", hstates + tot.1);
    rep.cov("transitions", htrans + tot.2);
    rep.cov("traces_validated_against_impl", htrans + tot.0);
    rep.cov("history_states", hstates);
    rep.cov("history_transitions", htrans);
    rep.cov("history_depth", depth as u64);
    rep.cov("history_configurations", hjobs.len() as u64);
    rep.cov("schedules", tot.0);
    rep.cov("preemption_bound", bound as u64);
    rep.cov("schedule_bound_completed", !capped);
    rep.cov("scenarios", json!(per));
    rep.cov("explanation", "history part: for each way of using the handle (global layer, per-layer filter, Filtered layer inside reload via modify) and each initial value, BFS over {reload to any other value, events on two threads, span open/close, drop the collector}; states = (current value, live, open spans with their verdicts, LevelFilter::current()); schedule part: reload || emission(s) on 2 more threads, every interleaving up to the preemption bound, each emission judged old-or-new (entirely) when overlapping, new when it starts after reload() returned");
    rep.assume("SC at hook granularity (reload lock, the unlock->rebuild gap, callsite registry lock, interest / MAX_LEVEL accesses)");
    rep.assume("Handle::reload is not used on a Filtered subscriber (documented); that case goes through modify()");
    rep.finish()
}
