//! C11 — filter directives: the most specific match wins, and filters round-trip.
//! Part A: exhaustive enumeration of directive lists from the documented grammar x a metadata
//! universe, against a specificity reference model; Targets vs EnvFilter agreement; would_enable;
//! Display -> parse round trip. Part B: Engine H over enter/exit/record histories for span-scoped
//! directives (level raised exactly while a matching span is entered, and for that span).
use crate::stack::{self, FL};
use mc::pool::{Outcome, Pool};
use mc::{Args, Report, Tier};
use serde::{Deserialize, Serialize};
use serde_json::json;
use std::collections::{BTreeMap, BTreeSet, HashSet};
use std::time::Duration;
use tracing_core::callsite::Callsite;
use tracing_core::metadata::Kind;
use tracing_core::{field::FieldSet, Dispatch, Interest, Level, LevelFilter, Metadata};
use tracing_subscriber::filter::{EnvFilter, Targets};
use tracing_subscriber::prelude::*;
use tracing_subscriber::registry::Registry;

struct Cs(#[allow(dead_code)] u8);
impl Callsite for Cs {
    fn set_interest(&self, _: Interest) {}
    fn metadata(&self) -> &Metadata<'_> {
        unreachable!()
    }
}
static CS0: Cs = Cs(0);
static CS1: Cs = Cs(1);
static CS2: Cs = Cs(2);

const M_TARGETS: &[&str] = &["a", "a::b", "a::bc", "a::b::c", "ab", "app", "application", "b"];
const LEVELS: [Level; 5] = [Level::ERROR, Level::WARN, Level::INFO, Level::DEBUG, Level::TRACE];
const FIELDSETS: [&[&str]; 3] = [&[], &["x"], &["x", "y"]];

fn rank(l: &Level) -> u8 {
    stack::rank(l)
}

// ---- reference model -----------------------------------------------------------------------------------

#[derive(Clone, Debug, PartialEq, Eq, PartialOrd, Ord)]
struct Dir {
    target: Option<String>,
    fields: Vec<String>,
    level: u8,
}

fn parse_level(s: &str) -> Option<u8> {
    match s.to_ascii_lowercase().as_str() {
        "off" | "0" => Some(0),
        "error" | "1" => Some(1),
        "warn" | "2" => Some(2),
        "info" | "3" => Some(3),
        "debug" | "4" => Some(4),
        "trace" | "5" => Some(5),
        _ => None,
    }
}

/// reference parser for the documented static grammar; None = not in the grammar
fn parse_dir(s: &str) -> Option<Dir> {
    if s.is_empty() {
        return None;
    }
    if let Some(l) = parse_level(s) {
        return Some(Dir { target: None, fields: vec![], level: l });
    }
    let (lhs, lvl) = match s.split_once('=') {
        Some((l, r)) => (l, Some(parse_level(r)?)),
        None => (s, None),
    };
    let (target, fields) = match lhs.split_once("[{") {
        Some((t, f)) => {
            let f = f.strip_suffix("}]")?;
            (t, f.split(',').filter(|x| !x.is_empty()).map(String::from).collect::<Vec<_>>())
        }
        None => (lhs, vec![]),
    };
    if !target.chars().all(|c| c.is_alphanumeric() || c == ':' || c == '_' || c == '-') {
        return None;
    }
    Some(Dir { target: if target.is_empty() { None } else { Some(target.to_string()) }, fields, level: lvl.unwrap_or(5) })
}

/// later entries with the same (target, fields) replace earlier ones
fn dirset(list: &[Dir]) -> Vec<Dir> {
    let mut out: Vec<Dir> = vec![];
    for d in list {
        if let Some(e) = out.iter_mut().find(|e| e.target == d.target && e.fields == d.fields) {
            e.level = d.level;
        } else {
            out.push(d.clone());
        }
    }
    out
}

/// set of acceptable verdicts (a tie between equally specific directives is unspecified)
fn model_verdicts(dirs: &[Dir], target: &str, level: u8, fields: &[&str], is_span: bool) -> BTreeSet<bool> {
    let matching: Vec<&Dir> = dirs
        .iter()
        .filter(|d| d.target.as_ref().map_or(true, |t| target.starts_with(t.as_str())))
        .filter(|d| is_span || d.fields.iter().all(|f| fields.contains(&f.as_str())))
        .collect();
    let best = matching.iter().map(|d| (d.target.as_ref().map_or(-1, |t| t.len() as i64), d.fields.len())).max();
    match best {
        None => [false].into_iter().collect(),
        Some(b) => matching.iter().filter(|d| (d.target.as_ref().map_or(-1, |t| t.len() as i64), d.fields.len()) == b).map(|d| level <= d.level).collect(),
    }
}

// ---- part A --------------------------------------------------------------------------------------------

pub fn directive_pool(tier: Tier) -> Vec<String> {
    let targets: Vec<&str> = match tier {
        Tier::Quick => vec!["a", "a::b", "a::bc", "ab", "app", "application"],
        Tier::Thorough => vec!["a", "a::b", "a::bc", "ab", "app", "application", "b", "a::b::c", "a:"],
    };
    let fields = ["", "[{x}]", "[{x,y}]", "[{y}]"];
    let lv: Vec<&str> = match tier {
        Tier::Quick => vec!["", "=error", "=INFO", "=Debug", "=trace", "=off", "=2", "="],
        Tier::Thorough => vec!["", "=error", "=WARN", "=Info", "=dEbUg", "=trace", "=TRACE", "=off", "=OFF", "=0", "=1", "=2", "=3", "=4", "=5", "=", "=6", "=verbose"],
    };
    let mut v: Vec<String> = vec![];
    for t in &targets {
        for f in &fields {
            for l in &lv {
                // documented forms only: `T=L`, `T[{F,..}]=L`, bare `T` (bare levels are added below);
                // a field list needs both a target and a level, and `=L` needs a target
                if t.is_empty() || (!f.is_empty() && l.is_empty()) {
                    continue;
                }
                v.push(format!("{}{}{}", t, f, l));
            }
        }
    }
    for b in ["info", "WARN", "3", "off", "Trace"] {
        v.push(b.to_string());
    }
    v.sort();
    v.dedup();
    v
}

#[derive(Serialize, Deserialize, Clone, Debug)]
struct AJob {
    lists: Vec<String>,
    f10_open: bool,
    f12_open: bool,
}

#[derive(Serialize, Deserialize, Clone, Debug, Default)]
struct ARes {
    evals: u64,
    lists: u64,
    accepted_both: u64,
    bad: Vec<(String, String)>,
    known: BTreeMap<String, u64>,
}

fn verdicts_of(d: &Dispatch) -> Vec<bool> {
    let mut out = Vec::with_capacity(M_TARGETS.len() * 5 * 3 * 2);
    for t in M_TARGETS {
        for l in LEVELS {
            for (fi, fs) in FIELDSETS.iter().enumerate() {
                for kind in [Kind::EVENT, Kind::SPAN] {
                    // spans declare every field name, so a field-list directive's constraint is
                    // satisfied for them whatever reading of "matching" is taken
                    let names: &'static [&'static str] = if kind == Kind::SPAN { FIELDSETS[2] } else { fs };
                    let cs: &'static Cs = [&CS0, &CS1, &CS2][fi];
                    let m = Metadata::new("m", t, l, None, None, None, FieldSet::new(names, tracing_core::identify_callsite!(cs)), kind);
                    out.push(d.enabled(&m));
                }
            }
        }
    }
    out
}

fn check_list(s: &str, f10_open: bool, f12_open: bool, res: &mut ARes) {
    res.lists += 1;
    let parts: Vec<&str> = s.split(',').filter(|p| !p.is_empty()).collect();
    let model: Option<Vec<Dir>> = parts.iter().map(|p| parse_dir(p)).collect::<Option<Vec<_>>>().map(|v| dirset(&v));
    let has_empty_level = parts.iter().any(|p| p.ends_with('='));
    let has_field_list = s.contains("[{x,y}]");
    let t = s.parse::<Targets>();
    let e = EnvFilter::try_new(s);
    let mut bad = |msg: String, known: Option<&str>, res: &mut ARes| match known {
        Some(k) => *res.known.entry(k.to_string()).or_insert(0) += 1,
        None => {
            if res.bad.len() < 40 {
                res.bad.push((s.to_string(), msg))
            }
        }
    };
    let f10 = if f10_open && (has_empty_level || s.is_empty()) { Some("F10") } else { None };
    let f12 = if f12_open && has_field_list { Some("F12") } else { None };
    // acceptance = the documented grammar
    match (&model, &t) {
        (Some(_), Err(err)) => bad(format!("Targets rejects a string of the documented grammar: {}", err), f12, res),
        (None, Ok(_)) => bad("Targets accepts a string outside the documented grammar".into(), f10.or(f12), res),
        _ => {}
    }
    match (&model, &e) {
        (Some(_), Err(err)) => bad(format!("EnvFilter rejects a string of the documented grammar: {}", err), f12, res),
        (None, Ok(_)) => bad("EnvFilter accepts a string outside the documented grammar".into(), f10.or(f12), res),
        _ => {}
    }
    let tv = t.as_ref().ok().map(|t| verdicts_of(&Dispatch::new(Registry::default().with(t.clone()).with(FL { id: 1 }))));
    let ev = e.ok().map(|e| {
        let shown = e.to_string();
        let v = verdicts_of(&Dispatch::new(Registry::default().with(e).with(FL { id: 1 })));
        (shown, v)
    });
    // model comparison on every metadata
    let mut idx = 0;
    for tg in M_TARGETS {
        for l in LEVELS {
            for fs in FIELDSETS.iter() {
                for is_span in [false, true] {
                    res.evals += 1;
                    if let Some(m) = &model {
                        let want = model_verdicts(m, tg, rank(&l), fs, is_span);
                        for (who, got) in [("Targets", tv.as_ref().map(|v| v[idx])), ("EnvFilter", ev.as_ref().map(|v| v.1[idx]))] {
                            if let Some(g) = got {
                                if !want.contains(&g) {
                                    bad(
                                        format!("{} says {} for ({} target {} level {} fields {:?}); the most specific matching directive says {:?}", who, g, if is_span { "span" } else { "event" }, tg, l, fs, want),
                                        f10.or(f12),
                                        res,
                                    );
                                }
                            }
                        }
                    }
                    // both accept => both agree
                    if let (Some(tv), Some(ev)) = (&tv, &ev) {
                        if tv[idx] != ev.1[idx] {
                            bad(format!("Targets says {} but EnvFilter says {} for ({} target {} level {} fields {:?})", tv[idx], ev.1[idx], if is_span { "span" } else { "event" }, tg, l, fs), f10.or(f12), res);
                        }
                    }
                    idx += 1;
                }
            }
            // would_enable agrees with actual filtering (field-less event metadata)
            if let (Ok(t), Some(tv)) = (&t, &tv) {
                let fi = idx - FIELDSETS.len() * 2; // first entry of this (target, level): fields [] event
                if t.would_enable(tg, &l) != tv[fi] {
                    bad(format!("Targets::would_enable({}, {}) = {} but filtering says {}", tg, l, t.would_enable(tg, &l), tv[fi]), f10.or(f12), res);
                }
            }
        }
    }
    if tv.is_some() && ev.is_some() {
        res.accepted_both += 1;
    }
    // round trips
    if let Ok(t) = &t {
        let shown = t.to_string();
        match shown.parse::<Targets>() {
            Ok(t2) => {
                // "the same filter": same enabling decisions on the whole universe and the same
                // printed form (the derived PartialEq also compares a cached upper bound that is
                // not part of what the filter decides)
                let v2 = verdicts_of(&Dispatch::new(Registry::default().with(t2.clone()).with(FL { id: 1 })));
                if Some(&v2) != tv.as_ref() || t2.to_string() != shown {
                    bad(format!("Targets prints as {:?}, which parses to a different filter ({:?})", shown, t2.to_string()), f12.or(f10), res);
                }
            }
            Err(err) => bad(format!("Targets prints as {:?}, which does not parse: {}", shown, err), f12.or(f10), res),
        }
    }
    if let Some((shown, v)) = &ev {
        match EnvFilter::try_new(shown) {
            Ok(e2) => {
                let shown2 = e2.to_string();
                let v2 = verdicts_of(&Dispatch::new(Registry::default().with(e2).with(FL { id: 1 })));
                if &v2 != v {
                    bad(format!("EnvFilter prints as {:?}, which parses to a filter that behaves differently", shown), f10.or(f12), res);
                }
                let mut a: Vec<&str> = shown.split(',').collect();
                let mut b: Vec<&str> = shown2.split(',').collect();
                a.sort();
                b.sort();
                if a != b {
                    bad(format!("EnvFilter prints as {:?}, re-parsed prints as {:?}", shown, shown2), f10.or(f12), res);
                }
            }
            Err(err) => bad(format!("EnvFilter prints as {:?}, which does not parse: {}", shown, err), f10.or(f12), res),
        }
    }
}

fn a_runner(job: &[u8]) -> Vec<u8> {
    let job: AJob = serde_json::from_slice(job).unwrap();
    let mut res = ARes::default();
    for s in &job.lists {
        let r = std::panic::catch_unwind(std::panic::AssertUnwindSafe(|| {
            let mut r = ARes::default();
            check_list(s, job.f10_open, job.f12_open, &mut r);
            r
        }));
        match r {
            Ok(r) => {
                res.evals += r.evals;
                res.lists += r.lists;
                res.accepted_both += r.accepted_both;
                res.bad.extend(r.bad);
                for (k, n) in r.known {
                    *res.known.entry(k).or_insert(0) += n;
                }
            }
            Err(_) => res.bad.push((s.clone(), "panic while parsing / evaluating".into())),
        }
    }
    res.bad.truncate(60);
    serde_json::to_vec(&res).unwrap()
}

// ---- part B: span-scoped directives ----------------------------------------------------------------------

#[derive(Clone, Debug, Serialize, Deserialize)]
pub struct BCfg {
    pub directives: String,
    /// model of the single span-scoped directive: (target prefix, span name, field name, value matcher, level)
    pub dyn_target: Option<String>,
    pub dyn_name: Option<String>,
    pub dyn_field: Option<String>,
    pub dyn_value: Option<String>,
    pub dyn_level: u8,
    /// static default level (bare level in the string), if any
    pub static_default: Option<u8>,
    pub depth: usize,
    pub f18_open: bool,
    #[serde(default)]
    pub f16_open: bool,
    /// build the filter incrementally: parse the static part, `add_directive` the span-scoped one
    #[serde(default)]
    pub via_add: bool,
    /// the filter is attached to the observing layer with `with_filter` (the `Filter` impl)
    /// instead of being installed as a layer of its own (the `Subscribe` impl)
    #[serde(default)]
    pub per_layer: bool,
}

#[derive(Clone, Debug, Serialize, Deserialize, Default)]
pub struct BRes {
    pub states: u64,
    pub transitions: u64,
    pub violations: Vec<(Vec<String>, String)>,
    pub known: BTreeMap<String, u64>,
    pub sample: Vec<String>,
}

const VALUES: [&str; 6] = ["empty", "1", "2", "true", "v", "vw"];

fn value_matches(matcher: &str, recorded: &str) -> bool {
    match matcher {
        "1" => recorded == "1",
        "true" => recorded == "true",
        "v" => recorded == "v",
        // regex-style debug pattern
        "v.*" => recorded.starts_with('v') && recorded != "empty",
        _ => false,
    }
}

struct BSpan {
    name: &'static str,
    target: &'static str,
    level: u8,
    open: fn(&str) -> tracing::Span,
}

fn rec(s: &tracing::Span, v: &str) {
    match v {
        "1" => {
            s.record("k", 1u64);
        }
        "2" => {
            s.record("k", 2u64);
        }
        "true" => {
            s.record("k", true);
        }
        "v" => {
            s.record("k", "v");
        }
        "vw" => {
            s.record("k", "vw");
        }
        _ => {}
    }
}

macro_rules! bspan {
    ($f:ident, $name:literal, $t:literal, $lvl:expr) => {
        fn $f(v: &str) -> tracing::Span {
            match v {
                "1" => tracing::span!(target: $t, $lvl, $name, k = 1u64),
                "2" => tracing::span!(target: $t, $lvl, $name, k = 2u64),
                "true" => tracing::span!(target: $t, $lvl, $name, k = true),
                "v" => tracing::span!(target: $t, $lvl, $name, k = "v"),
                "vw" => tracing::span!(target: $t, $lvl, $name, k = "vw"),
                _ => tracing::span!(target: $t, $lvl, $name, k = tracing::field::Empty),
            }
        }
    };
}
bspan!(o_sp_a, "sp", "a", tracing::Level::INFO);
bspan!(o_other_a, "other", "a", tracing::Level::INFO);
bspan!(o_sp_b, "sp", "b", tracing::Level::TRACE);

fn bspans() -> Vec<BSpan> {
    vec![
        BSpan { name: "sp", target: "a", level: 3, open: o_sp_a },
        BSpan { name: "other", target: "a", level: 3, open: o_other_a },
        BSpan { name: "sp", target: "b", level: 5, open: o_sp_b },
    ]
}

fn b_events() -> Vec<(&'static str, u8, &'static str, fn())> {
    fn e1() {
        tracing::event!(name: "e_error_a", target: "a", tracing::Level::ERROR, "m")
    }
    fn e3() {
        tracing::event!(name: "e_info_a", target: "a", tracing::Level::INFO, "m")
    }
    fn e4() {
        tracing::event!(name: "e_debug_a", target: "a", tracing::Level::DEBUG, "m")
    }
    fn e5() {
        tracing::event!(name: "e_trace_a", target: "a", tracing::Level::TRACE, "m")
    }
    fn e4b() {
        tracing::event!(name: "e_debug_b", target: "b", tracing::Level::DEBUG, "m")
    }
    vec![("e_error_a", 1, "a", e1), ("e_info_a", 3, "a", e3), ("e_debug_a", 4, "a", e4), ("e_trace_a", 5, "a", e5), ("e_debug_b", 4, "b", e4b)]
}

struct MSpan {
    idx: usize,
    value: String,
    /// the callsite is tracked by the span-scoped directive (name/target/field name match)
    cared: bool,
    visible: bool,
    /// the value at the moment it was entered (what the pinned implementation uses)
    value_at_enter: String,
    /// a matching value has been recorded at some point (a later, different value does not
    /// un-match the span: the property does not say it should, the filter keeps the match)
    matched_ever: bool,
    /// `matched_ever` as of the last time the span was entered
    matched_at_enter: bool,
}

fn b_run_history(cfg: &BCfg, history: &[String]) -> (String, Vec<String>, Vec<String>, Vec<String>) {
    // `via_add`: the static part is parsed, the span-scoped directive is added afterwards
    let filter = if cfg.via_add {
        let (first, rest) = cfg.directives.split_once(',').expect("two directives");
        EnvFilter::new(first).add_directive(rest.parse().expect("directive"))
    } else {
        EnvFilter::new(&cfg.directives)
    };
    let d = if cfg.per_layer {
        use tracing_subscriber::Subscribe as _;
        Dispatch::new(Registry::default().with(FL { id: 1 }.with_filter(filter)))
    } else {
        Dispatch::new(Registry::default().with(filter).with(FL { id: 1 }))
    };
    let spans = bspans();
    let events = b_events();
    // end-of-history probes: every event once more after the last step, so that a state the
    // de-duplication key cannot see (the filter's own per-thread scope stack) still shows
    let mut hist = history.to_vec();
    if history.last().map_or(false, |l| !l.starts_with("ev:")) {
        hist.extend((0..events.len()).map(|i| format!("ev:{}", i)));
    }
    let cfgc = cfg.clone();
    let out = std::thread::spawn(move || {
        let cfg = cfgc;
        let _g = tracing_core::dispatch::set_default(&d);
        let mut open: Vec<(tracing::span::EnteredSpan, MSpan)> = vec![];
        let mut violations = vec![];
        let mut known = vec![];
        let static_ok = |level: u8| cfg.static_default.map_or(false, |d| level <= d);
        let cares = |s: &BSpan| -> bool {
            cfg.dyn_name.as_ref().map_or(true, |n| n == s.name) && cfg.dyn_target.as_ref().map_or(true, |t| s.target.starts_with(t.as_str()))
        };
        let matches_now = |m: &MSpan| -> bool { m.cared && m.visible && m.matched_ever };
        let matched_at_enter = |m: &MSpan| -> bool { m.cared && m.visible && m.matched_at_enter };
        let value_ok = |v: &str| -> bool { cfg.dyn_value.as_ref().map_or(true, |want| value_matches(want, v)) };
        for (step, op) in hist.iter().enumerate() {
            let p: Vec<&str> = op.split(':').collect();
            let n0 = stack::flog_len();
            match p[0] {
                "ev" => {
                    let i: usize = p[1].parse().unwrap();
                    let (name, level, _t, f) = events[i];
                    let raised = open.iter().any(|(_, m)| matches_now(m)) && level <= cfg.dyn_level;
                    let raised_impl = open.iter().any(|(_, m)| matched_at_enter(m)) && level <= cfg.dyn_level;
                    let want = static_ok(level) || raised;
                    f();
                    let got = stack::flog_since(n0).iter().any(|e| e.kind == "event" && e.name == name);
                    if got != want {
                        let want_impl = static_ok(level) || raised_impl;
                        if cfg.f18_open && got == want_impl {
                            known.push("F18".to_string());
                        } else {
                            violations.push(format!(
                                "step {} ({}): event {} delivered={}, expected {} (static default {:?}; entered spans {:?}; directive level rank {})",
                                step,
                                op,
                                name,
                                got,
                                want,
                                cfg.static_default,
                                open.iter().map(|(_, m)| format!("{}@{} k={} matching={}", spans[m.idx].name, spans[m.idx].target, m.value, matches_now(m))).collect::<Vec<_>>(),
                                cfg.dyn_level
                            ));
                        }
                    }
                }
                "open" => {
                    let i: usize = p[1].parse().unwrap();
                    let v = p[2];
                    let s = &spans[i];
                    let cared = cares(s);
                    // the span itself: tracked spans are always enabled; others follow the static
                    // default or a raised level
                    let raised = open.iter().any(|(_, m)| matches_now(m)) && s.level <= cfg.dyn_level;
                    let raised_impl = open.iter().any(|(_, m)| matched_at_enter(m)) && s.level <= cfg.dyn_level;
                    // (a tracked span is enabled up to the directive's level, like anything inside it)
                    let tracked_any_level = cared;
                    let cared = cared && s.level <= cfg.dyn_level;
                    let want = cared || static_ok(s.level) || raised;
                    let sp = (s.open)(v);
                    // (behind a per-layer filter the span always exists in the registry: enabled means
                    // that the filtered layer was told about it)
                    let got = if cfg.per_layer { stack::flog_since(n0).iter().any(|e| e.kind == "new_span") } else { !sp.is_disabled() };
                    let mut visible = got;
                    if got != want {
                        let want_impl = cared || static_ok(s.level) || raised_impl;
                        if cfg.f18_open && got == want_impl {
                            known.push("F18".to_string());
                        } else if cfg.f16_open && got && tracked_any_level && !cared {
                            // F16: EnvFilter answers `always` for every span callsite matched by a
                            // span directive, whatever the directive's level
                            known.push("F16".to_string());
                        } else {
                            violations.push(format!("step {} ({}): span {}@{} enabled={}, expected {}", step, op, s.name, s.target, got, want));
                            visible = want;
                        }
                    }
                    let cared = if got && tracked_any_level { true } else { cared };
                    let ok = value_ok(v);
                    let m = MSpan { idx: i, value: v.to_string(), cared, visible, value_at_enter: v.to_string(), matched_ever: ok, matched_at_enter: ok };
                    open.push((sp.entered(), m));
                }
                "rec" => {
                    let v = p[1];
                    if let Some((s, m)) = open.last_mut() {
                        rec(s, v);
                        if m.visible {
                            m.value = v.to_string();
                            m.matched_ever |= value_ok(v);
                        }
                    }
                }
                "close" => {
                    drop(open.pop());
                }
                "reenter" => {
                    // exit the innermost span and enter it again (its recorded values count from now on
                    // even under F18)
                    if let Some((e, mut m)) = open.pop() {
                        let sp = e.exit();
                        m.value_at_enter = m.value.clone();
                        m.matched_at_enter = m.matched_ever;
                        open.push((sp.entered(), m));
                    }
                }
                _ => panic!("bad op"),
            }
            if !violations.is_empty() {
                break;
            }
        }
        let key = format!("{:?}", open.iter().map(|(_, m)| (m.idx, m.value.clone(), m.value_at_enter.clone(), m.visible, m.matched_ever, m.matched_at_enter)).collect::<Vec<_>>());
        let mut next = vec![];
        for i in 0..events.len() {
            next.push(format!("ev:{}", i));
        }
        if open.len() < 2 {
            for i in 0..spans.len() {
                for v in VALUES {
                    next.push(format!("open:{}:{}", i, v));
                }
            }
        }
        if !open.is_empty() {
            next.push("close".to_string());
            next.push("reenter".to_string());
            for v in &VALUES[1..] {
                next.push(format!("rec:{}", v));
            }
        }
        while let Some(x) = open.pop() {
            drop(x);
        }
        (key, next, violations, known)
    })
    .join()
    .unwrap_or_else(|_| ("<panic>".into(), vec![], vec!["panic in history thread".into()], vec![]));
    out
}

fn b_explore(cfg: &BCfg) -> BRes {
    let mut res = BRes::default();
    let mut seen: HashSet<String> = HashSet::new();
    let mut level: Vec<Vec<String>> = vec![vec![]];
    for depth in 0..=cfg.depth {
        let mut next_level = vec![];
        for h in &level {
            stack::flog_clear();
            let (key, next, viol, known) = b_run_history(cfg, h);
            res.transitions += 1;
            for k in known {
                *res.known.entry(k).or_insert(0) += 1;
            }
            if !viol.is_empty() {
                if res.violations.len() < 3 {
                    res.violations.push((h.clone(), viol.join(" ;; ")));
                }
                continue;
            }
            if seen.insert(key) {
                res.states += 1;
                if res.sample.is_empty() && h.len() >= 4 {
                    res.sample = h.clone();
                }
                if depth < cfg.depth {
                    for op in next {
                        let mut nh = h.clone();
                        nh.push(op);
                        next_level.push(nh);
                    }
                }
            }
        }
        if !res.violations.is_empty() {
            break;
        }
        level = next_level;
    }
    res
}

fn b_runner(job: &[u8]) -> Vec<u8> {
    let cfg: BCfg = serde_json::from_slice(job).unwrap();
    serde_json::to_vec(&b_explore(&cfg)).unwrap()
}

pub fn b_configs(depth: usize, f18_open: bool) -> Vec<BCfg> {
    let mk = |s: &str, t: Option<&str>, n: Option<&str>, f: Option<&str>, v: Option<&str>, l: u8, def: Option<u8>| BCfg {
        directives: s.to_string(),
        dyn_target: t.map(String::from),
        dyn_name: n.map(String::from),
        dyn_field: f.map(String::from),
        dyn_value: v.map(String::from),
        dyn_level: l,
        static_default: def,
        depth,
        f18_open,
        f16_open: false,
        via_add: false,
        per_layer: false,
    };
    let v = vec![
        mk("[sp]=debug", None, Some("sp"), None, None, 4, None),
        mk("warn,[sp]=trace", None, Some("sp"), None, None, 5, Some(2)),
        mk("a[sp]=debug", Some("a"), Some("sp"), None, None, 4, None),
        mk("error,[sp{k}]=debug", None, Some("sp"), Some("k"), None, 4, Some(1)),
        mk("[sp{k=1}]=debug", None, Some("sp"), Some("k"), Some("1"), 4, None),
        mk("info,[{k=true}]=trace", None, None, Some("k"), Some("true"), 5, Some(3)),
        mk("[sp{k=v}]=trace", None, Some("sp"), Some("k"), Some("v"), 5, None),
        mk("error,[{k=v.*}]=debug", None, None, Some("k"), Some("v.*"), 4, Some(1)),
    ];
    let mut v = v;
    let added: Vec<BCfg> = v.iter().filter(|c| c.static_default.is_some()).map(|c| BCfg { via_add: true, ..c.clone() }).collect();
    v.extend(added);
    let per_layer: Vec<BCfg> = v.iter().filter(|c| !c.via_add).map(|c| BCfg { per_layer: true, ..c.clone() }).collect();
    v.extend(per_layer);
    v
}

pub fn run(args: &Args) -> i32 {
    let mut rep = Report::new(args, "exploration");
    let (f10_open, f12_open, f18_open) = (rep.is_open("F10"), rep.is_open("F12"), rep.is_open("F18"));
    if let Some(p) = &args.replay {
        let v: serde_json::Value = serde_json::from_str(&std::fs::read_to_string(p).expect("read replay")).expect("json");
        if let Some(s) = v["case"].get("list").and_then(|x| x.as_str()) {
            let mut r = ARes::default();
            check_list(s, f10_open, f12_open, &mut r);
            for (_, m) in &r.bad {
                println!("VIOLATION property={} replay={} :: [{}] {}", args.property, p, s, m);
            }
            if r.bad.is_empty() {
                println!("replay: no violation (known: {:?})", r.known);
            }
            return i32::from(!r.bad.is_empty());
        }
        let cfg: BCfg = serde_json::from_value(v["case"]["cfg"].clone()).unwrap();
        let h: Vec<String> = serde_json::from_value(v["case"]["history"].clone()).unwrap();
        let (_, _, viol, known) = b_run_history(&cfg, &h);
        for x in &viol {
            println!("VIOLATION property={} replay={} :: [{}] {}", args.property, p, cfg.directives, x);
        }
        if viol.is_empty() {
            println!("replay: no violation (known {:?})", known);
        }
        return i32::from(!viol.is_empty());
    }
    // ---- part A ----
    let pool_ = directive_pool(args.tier);
    let mut lists: Vec<String> = vec![String::new()];
    lists.extend(pool_.iter().cloned());
    for a in &pool_ {
        for b in &pool_ {
            lists.push(format!("{},{}", a, b));
        }
    }
    if args.tier == Tier::Thorough {
        let small: Vec<&String> = pool_.iter().step_by(5).collect();
        for a in &small {
            for b in &small {
                for c in &small {
                    lists.push(format!("{},{},{}", a, b, c));
                }
            }
        }
    }
    let nlists = lists.len();
    let jobs: Vec<AJob> = lists.chunks(200).map(|c| AJob { lists: c.to_vec(), f10_open, f12_open }).collect();
    let mut pool = Pool::new(mc::pool::default_workers(), a_runner, false, Duration::from_secs(1200));
    let mut a = ARes::default();
    let mut crashed = vec![];
    pool.run_list(jobs.iter().map(|j| serde_json::to_vec(j).unwrap()).collect(), |_, out| match out {
        Outcome::Ok(b) => {
            let r: ARes = serde_json::from_slice(&b).unwrap();
            a.evals += r.evals;
            a.lists += r.lists;
            a.accepted_both += r.accepted_both;
            a.bad.extend(r.bad);
            for (k, n) in r.known {
                *a.known.entry(k).or_insert(0) += n;
            }
        }
        o => crashed.push(format!("{:?}", o)),
    });
    drop(pool);
    for c in crashed {
        rep.machinery_error(c);
    }
    a.bad.sort();
    let mut seen_lists = BTreeSet::new();
    for (s, m) in &a.bad {
        if seen_lists.insert(s.clone()) {
            rep.violation(format!("[{:?}] {}", s, m), json!({"list": s}));
        }
    }
    for (k, n) in &a.known {
        for _ in 0..(*n).min(1_000_000) {
            rep.known_hit(k);
        }
    }
    // ---- part B ----
    let depth = std::env::var("VERIF_DEPTH").ok().and_then(|s| s.parse().ok()).unwrap_or(args.tier.pick(4, 5));
    let f16_open = rep.is_open("F16");
    let bc: Vec<BCfg> = b_configs(depth, f18_open).into_iter().map(|mut c| {
        c.f16_open = f16_open;
        c
    }).collect();
    let mut pool = Pool::new(mc::pool::default_workers(), b_runner, false, Duration::from_secs(1200));
    let (mut bstates, mut btrans) = (0u64, 0u64);
    let mut bres = vec![];
    pool.run_list(bc.iter().map(|j| serde_json::to_vec(j).unwrap()).collect(), |job, out| {
        let cfg: BCfg = serde_json::from_slice(job).unwrap();
        if let Outcome::Ok(b) = out {
            bres.push((cfg, serde_json::from_slice::<BRes>(&b).unwrap()));
        }
    });
    bres.sort_by_key(|(c, _)| c.directives.clone());
    for (cfg, r) in &bres {
        bstates += r.states;
        btrans += r.transitions;
        for (h, m) in &r.violations {
            rep.violation(format!("[{}] {}", cfg.directives, m), json!({"cfg": cfg, "history": h}));
        }
        for (k, n) in &r.known {
            for _ in 0..*n {
                rep.known_hit(k);
            }
        }
        if !r.sample.is_empty() {
            rep.sample(json!({"directives": cfg.directives, "history": r.sample}));
        }
    }
    rep.cov("evaluations", a.evals + btrans);
    rep.cov("distinct_nontrivial", a.evals + btrans);
    rep.cov("directive_lists", nlists as u64);
    rep.cov("directive_pool", pool_.len() as u64);
    rep.cov("lists_accepted_by_both", a.accepted_both);
    rep.cov("span_scoped_states", bstates);
    rep.cov("span_scoped_histories", btrans);
    rep.cov("span_scoped_depth", depth as u64);
    rep.cov("exhaustive", true);
    rep.cov("rule", "part A: every list of <= 2 (thorough: also <= 3 over a sub-pool) directives from the pool {7-10 targets with shared prefixes} x {no fields, [{x}], [{y}], [{x,y}]} x {level absent / names in mixed case / off / digits / empty / invalid} + bare levels, parsed by Targets and by EnvFilter and evaluated on 8 targets x 5 levels x 3 field sets x span/event (each (list, metadata) pair is a distinct evaluation) against the specificity model (ties accept both verdicts), plus Targets==EnvFilter, would_enable==filtering, Display->parse round trips; part B: for 8 span-scoped directive sets, BFS over histories of {open span (3 callsites x 6 initial field values), record a value, close, 5 events} with the model 'level raised exactly while a span matching by name, target and recorded value is entered, and for that span'.");
    rep.sample(json!({"list": "a=info,a::b[{x}]=trace", "metadata": "event target a::bc level DEBUG fields [x]"}));
    rep.assume("spans in the metadata universe declare every field name, so a field-list directive's constraint is satisfied for them under either reading of 'matching'");
    rep.assume("a tie between equally specific directives (e.g. [{x}] vs [{y}]) is left unspecified by the property: both verdicts are accepted");
    rep.finish()
}
