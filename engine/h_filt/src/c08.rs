//! C08 — static summaries of filters (interest, max-level hint) are sound upper bounds.
//! Exhaustive enumeration of (filter expression | stack shape) x metadata universe x span context,
//! driven through the Collect API directly (no macro caches in the way), checking the implication
//! table  never => never enabled,  always => always enabled,  hint h => nothing above h enabled.
use crate::stack::{self, lf, FilterD, Node, BF};
use mc::pool::{Outcome, Pool};
use mc::{Args, Report, Tier};
use serde::{Deserialize, Serialize};
use serde_json::json;
use std::collections::BTreeSet;
use std::sync::{Arc, Mutex};
use std::time::Duration;
use tracing_core::callsite::Callsite;
use tracing_core::field::Value;
use tracing_core::metadata::Kind;
use tracing_core::{span, Collect, Dispatch, Event, Interest, Level, LevelFilter, Metadata};
use tracing_subscriber::prelude::*;
use tracing_subscriber::registry::Registry;
use tracing_subscriber::subscribe::{Context, Filter};

/// one (non zero-sized, hence distinctly addressed) callsite per metadata
struct Cs(#[allow(dead_code)] u8);
impl Callsite for Cs {
    fn set_interest(&self, _: Interest) {}
    fn metadata(&self) -> &Metadata<'_> {
        unreachable!()
    }
}
macro_rules! metas {
    ($( $id:ident: $name:literal, $target:literal, $lvl:expr, $kind:expr; )*) => {
        $( static $id: Metadata<'static> = {
            static CALLSITE: Cs = Cs(1);
            tracing_core::metadata! { name: $name, target: $target, level: $lvl, fields: &["k", "f"], callsite: &CALLSITE, kind: $kind }
        }; )*
        static UNIVERSE: &[&Metadata<'static>] = &[ $( &$id, )* ];
    };
}
metas! {
    E1A: "ev", "a", Level::ERROR, Kind::EVENT; E2A: "ev", "a", Level::WARN, Kind::EVENT; E3A: "ev", "a", Level::INFO, Kind::EVENT; E4A: "ev", "a", Level::DEBUG, Kind::EVENT; E5A: "ev", "a", Level::TRACE, Kind::EVENT;
    E1B: "ev", "b", Level::ERROR, Kind::EVENT; E2B: "ev", "b", Level::WARN, Kind::EVENT; E3B: "ev", "b", Level::INFO, Kind::EVENT; E4B: "ev", "b", Level::DEBUG, Kind::EVENT; E5B: "ev", "b", Level::TRACE, Kind::EVENT;
    E1X: "ev", "a::x", Level::ERROR, Kind::EVENT; E3X: "ev", "a::x", Level::INFO, Kind::EVENT; E5X: "ev", "a::x", Level::TRACE, Kind::EVENT;
    S1A: "sp", "a", Level::ERROR, Kind::SPAN; S3A: "sp", "a", Level::INFO, Kind::SPAN; S5A: "sp", "a", Level::TRACE, Kind::SPAN;
    S1B: "sp", "b", Level::ERROR, Kind::SPAN; S3B: "sp", "b", Level::INFO, Kind::SPAN; S4B: "sp", "b", Level::DEBUG, Kind::SPAN; S5B: "sp", "b", Level::TRACE, Kind::SPAN;
    O1A: "other", "a", Level::ERROR, Kind::SPAN; O3A: "other", "a", Level::INFO, Kind::SPAN; O5A: "other", "a", Level::TRACE, Kind::SPAN;
    O2B: "other", "b", Level::WARN, Kind::SPAN; O4B: "other", "b", Level::DEBUG, Kind::SPAN; O5B: "other", "b", Level::TRACE, Kind::SPAN; O5X: "other", "a::x", Level::TRACE, Kind::SPAN;
}

fn mdesc(m: &Metadata<'_>) -> String {
    format!("{} {} {} {}", if m.is_span() { "span" } else { "event" }, m.name(), m.target(), m.level())
}

/// context spans: (metadata, k value)
fn contexts() -> Vec<(&'static str, Option<(&'static Metadata<'static>, i64)>)> {
    vec![("no span", None), ("inside sp{k=1}", Some((&S3A, 1))), ("inside sp{k=2}@b", Some((&S1B, 2))), ("inside other", Some((&O3A, 1)))]
}

// ---- part A: filter expressions behind a recording pass-through ---------------------------------------

#[derive(Default)]
struct SpyLog {
    ce: Vec<(usize, u8)>,
    en: Vec<(usize, bool)>,
    hint: Option<Option<LevelFilter>>,
}

struct Spy {
    f: BF<Registry>,
    log: Arc<Mutex<SpyLog>>,
}

fn midx(m: &Metadata<'_>) -> usize {
    UNIVERSE.iter().position(|u| u.name() == m.name() && u.target() == m.target() && u.level() == m.level() && u.is_span() == m.is_span()).unwrap_or(usize::MAX)
}

impl Filter<Registry> for Spy {
    fn enabled(&self, m: &Metadata<'_>, cx: &Context<'_, Registry>) -> bool {
        let r = self.f.enabled(m, cx);
        self.log.lock().unwrap().en.push((midx(m), r));
        r
    }
    fn callsite_enabled(&self, m: &'static Metadata<'static>) -> Interest {
        let i = self.f.callsite_enabled(m);
        let c = if i.is_never() {
            0
        } else if i.is_always() {
            2
        } else {
            1
        };
        self.log.lock().unwrap().ce.push((midx(m), c));
        i
    }
    fn event_enabled(&self, e: &Event<'_>, cx: &Context<'_, Registry>) -> bool {
        self.f.event_enabled(e, cx)
    }
    fn max_level_hint(&self) -> Option<LevelFilter> {
        let h = self.f.max_level_hint();
        self.log.lock().unwrap().hint = Some(h);
        h
    }
    fn on_new_span(&self, a: &span::Attributes<'_>, id: &span::Id, ctx: Context<'_, Registry>) {
        self.f.on_new_span(a, id, ctx)
    }
    fn on_record(&self, id: &span::Id, v: &span::Record<'_>, ctx: Context<'_, Registry>) {
        self.f.on_record(id, v, ctx)
    }
    fn on_enter(&self, id: &span::Id, ctx: Context<'_, Registry>) {
        self.f.on_enter(id, ctx)
    }
    fn on_exit(&self, id: &span::Id, ctx: Context<'_, Registry>) {
        self.f.on_exit(id, ctx)
    }
    fn on_close(&self, id: span::Id, ctx: Context<'_, Registry>) {
        self.f.on_close(id, ctx)
    }
}

fn enter_ctx(d: &Dispatch, c: Option<(&'static Metadata<'static>, i64)>) -> Option<span::Id> {
    let (m, k) = c?;
    // the context span must exist for the stack under test: it is created through the full path
    let fk = m.fields().field("k").unwrap();
    let vals = [(&fk, Some(&k as &dyn Value))];
    let vs = m.fields().value_set(&vals);
    let _ = d.register_callsite(m);
    if !d.enabled(m) {
        return None;
    }
    let id = d.new_span(&span::Attributes::new(m, &vs));
    d.enter(&id);
    Some(id)
}

fn leave_ctx(d: &Dispatch, id: Option<span::Id>) {
    if let Some(id) = id {
        d.exit(&id);
        d.try_close(id);
    }
}

fn check_expr(f: &FilterD) -> Vec<String> {
    let log = Arc::new(Mutex::new(SpyLog::default()));
    let spy = Spy { f: stack::build_filter::<Registry>(f), log: log.clone() };
    let d = Dispatch::new(Registry::default().with(stack::FL { id: 1 }.with_filter(spy)));
    let mut v = vec![];
    // callsite summaries (context free), hint
    for m in UNIVERSE {
        let _ = d.register_callsite(m);
    }
    let ce: Vec<(usize, u8)> = log.lock().unwrap().ce.clone();
    let hint = log.lock().unwrap().hint.flatten();
    let hint_known = log.lock().unwrap().hint.is_some();
    for (name, c) in contexts() {
        let id = enter_ctx(&d, c);
        if c.is_some() && id.is_none() {
            continue; // this filter does not let the context span exist
        }
        log.lock().unwrap().en.clear();
        for m in UNIVERSE {
            let _ = d.enabled(m);
            // consume the per-layer bit as a real emission would
            if m.is_event() {
                let vs = m.fields().value_set(&[]);
                d.event(&Event::new(m, &vs));
            }
        }
        let en = log.lock().unwrap().en.clone();
        for (mi, e) in en {
            if mi == usize::MAX {
                continue;
            }
            let m = UNIVERSE[mi];
            let c = ce.iter().rev().find(|x| x.0 == mi).map(|x| x.1);
            match c {
                Some(0) if e => v.push(format!("callsite_enabled = never for [{}] but enabled() = true {}", mdesc(m), name)),
                Some(2) if !e => v.push(format!("callsite_enabled = always for [{}] but enabled() = false {}", mdesc(m), name)),
                _ => {}
            }
            if hint_known {
                if let Some(h) = hint {
                    if *m.level() > h && e {
                        v.push(format!("max_level_hint = {} but [{}] is enabled {}", h, mdesc(m), name));
                    }
                }
            }
        }
        leave_ctx(&d, id);
    }
    v.sort();
    v.dedup();
    v
}

// ---- part B: whole stacks: the shortcut path (cached summary) vs the full path --------------------------

fn receivers_of(since: usize) -> BTreeSet<u8> {
    stack::flog_since(since).iter().filter(|e| e.kind == "event" || e.kind == "new_span").map(|e| e.layer).collect()
}

fn deliver(d: &Dispatch, m: &'static Metadata<'static>) {
    let vs = m.fields().value_set(&[]);
    if m.is_event() {
        d.event(&Event::new(m, &vs));
    } else {
        let id = d.new_span(&span::Attributes::new(m, &vs));
        d.try_close(id);
    }
}

fn check_stack(nodes: &[Node]) -> Vec<String> {
    let (arc, d) = build_arc(nodes);
    let mut v = vec![];
    let mut summary = vec![];
    for m in UNIVERSE {
        let i = arc.register_callsite(m);
        summary.push(if i.is_never() {
            0
        } else if i.is_always() {
            2
        } else {
            1
        });
    }
    let hint = arc.max_level_hint();
    for (name, c) in contexts() {
        // full path on this thread
        let id = enter_ctx(&d, c);
        if c.is_some() && id.is_none() {
            continue;
        }
        let mut full: Vec<(bool, BTreeSet<u8>)> = vec![];
        for m in UNIVERSE {
            let n0 = stack::flog_len();
            let e = d.enabled(m);
            if e {
                deliver(&d, m);
            }
            full.push((e, receivers_of(n0)));
        }
        leave_ctx(&d, id);
        // shortcut path (what the macros do with a cached `always`): fresh thread, no enabled() call
        let d2 = d.clone();
        let short: Vec<BTreeSet<u8>> = std::thread::spawn(move || {
            let id = enter_ctx(&d2, c);
            let mut out = vec![];
            for m in UNIVERSE {
                let n0 = stack::flog_len();
                deliver(&d2, m);
                out.push(receivers_of(n0));
            }
            leave_ctx(&d2, id);
            out
        })
        .join()
        .unwrap_or_default();
        for (mi, m) in UNIVERSE.iter().enumerate() {
            let (e, r) = &full[mi];
            match summary[mi] {
                0 if !r.is_empty() => v.push(format!("stack answers register_callsite = never for [{}] but layers {:?} receive it when asked dynamically, {}", mdesc(m), r, name)),
                2 if !*e => v.push(format!("stack answers register_callsite = always for [{}] but its enabled() rejects it, {}", mdesc(m), name)),
                2 if short.get(mi) != Some(r) => v.push(format!(
                    "stack answers register_callsite = always for [{}]: with the cached shortcut layers {:?} receive it, asked dynamically {:?}, {}",
                    mdesc(m),
                    short.get(mi),
                    r,
                    name
                )),
                _ => {}
            }
            if let Some(h) = hint {
                if *m.level() > h && !r.is_empty() {
                    v.push(format!("stack max_level_hint = {} but [{}] reaches layers {:?}, {}", h, mdesc(m), r, name));
                }
            }
        }
    }
    v.sort();
    v.dedup();
    v
}

fn build_arc(nodes: &[Node]) -> (Arc<dyn Collect + Send + Sync>, Dispatch) {
    use stack::build_node as bn;
    let arc: Arc<dyn Collect + Send + Sync> = match nodes.len() {
        1 => Arc::new(Registry::default().with(bn(&nodes[0]))),
        2 => Arc::new(Registry::default().with(bn(&nodes[0])).with(bn(&nodes[1]))),
        3 => Arc::new(Registry::default().with(bn(&nodes[0])).with(bn(&nodes[1])).with(bn(&nodes[2]))),
        _ => Arc::new(Registry::default().with(bn(&nodes[0])).with(bn(&nodes[1])).with(bn(&nodes[2])).with(bn(&nodes[3]))),
    };
    let d = Dispatch::new(arc.clone());
    (arc, d)
}

// ---- enumeration ----------------------------------------------------------------------------------------

pub fn bases() -> Vec<FilterD> {
    use FilterD::*;
    let mut v = vec![];
    for r in 0..=5 {
        v.push(Lv(r));
    }
    // (incl. duplicate / conflicting entries, later one more verbose and less verbose)
    // (the last four carry field names: string-parsed Targets may do that)
    for s in ["a=info", "b=trace,a=error", "debug,b=off", "a::x=trace,a=warn", "a=info,a=trace", "a=trace,a=error", "error,debug", "a[{k}]=trace,a=warn", "a[{k}]=off,a=debug", "a[{nosuch}]=trace,a=warn", "[{k,f}]=debug,error"] {
        v.push(Tg(s.into()));
    }
    for s in ["info", "a=debug,b=warn", "warn,a::x=trace", "off", "a=warn,a=trace", "error,trace"] {
        v.push(Env(s.into()));
    }
    v.push(EnvSp);
    v.push(Env("[sp{k=1}]=debug".into()));
    v.push(Env("error,[{k=1}]=trace".into()));
    // target-qualified span directives: the target only selects which span opens the scope
    v.push(Env("error,a[sp]=debug".into()));
    v.push(Env("a[sp]=trace,b=warn".into()));
    for (p, h) in [(0u8, 5u8), (1, 3), (2, 5), (3, 5)] {
        v.push(Fn(p, None));
        v.push(Fn(p, Some(h)));
    }
    for p in [0u8, 1] {
        v.push(Dyn(p, None));
        v.push(Dyn(p, Some(5)));
    }
    v.push(None_);
    v
}

pub fn exprs(tier: Tier) -> Vec<FilterD> {
    use FilterD::*;
    let b = bases();
    let bx = |f: &FilterD| Box::new(f.clone());
    let mut v = b.clone();
    for x in &b {
        v.push(Not(bx(x)));
        v.push(Some_(bx(x)));
        v.push(Reload(bx(x)));
        for y in &b {
            v.push(And(bx(x), bx(y)));
            v.push(Or(bx(x), bx(y)));
        }
    }
    if tier == Tier::Thorough {
        // depth 3: every depth-2 expression under the unary combinators, and every base combined
        // with every second depth-2 expression (both combinators, the deeper operand on either side)
        let d2: Vec<FilterD> = v[b.len()..].to_vec();
        for x in &d2 {
            v.push(Not(bx(x)));
            v.push(Reload(bx(x)));
            v.push(Some_(bx(x)));
        }
        for (k, y) in d2.iter().enumerate() {
            for (j, x) in b.iter().enumerate() {
                if (k + j) % 2 == 0 {
                    v.push(And(bx(x), bx(y)));
                    v.push(Or(bx(y), bx(x)));
                } else {
                    v.push(And(bx(y), bx(x)));
                    v.push(Or(bx(x), bx(y)));
                }
            }
        }
    }
    v
}

pub fn stack_configs(tier: Tier) -> Vec<Vec<Node>> {
    use Node::*;
    let mut out = crate::c07::configs(tier);
    // global filters inside a Vec / Option / tree next to plain layers (their own summaries must
    // combine soundly too)
    let gs = [FilterD::Lv(2), FilterD::Lv(5), FilterD::Tg("a=info,b=error".into()), FilterD::EnvSp];
    let fs = [FilterD::Lv(3), FilterD::Fn(0, None), FilterD::Dyn(0, None)];
    for strict in [FilterD::Lv(1), FilterD::Lv(3), FilterD::Fn(1, Some(3))] {
        for loose in [FilterD::Lv(5), FilterD::Lv(4), FilterD::Dyn(1, Some(5)), FilterD::Fn(0, None)] {
            let (a, b) = (F(Box::new(L(1)), strict.clone()), F(Box::new(L(2)), loose.clone()));
            out.push(vec![a.clone(), V(vec![O(None), b.clone()])]);
            out.push(vec![a.clone(), V(vec![b.clone(), O(None)])]);
            out.push(vec![a.clone(), And(Box::new(O(None)), Box::new(b.clone()))]);
            out.push(vec![a.clone(), And(Box::new(b.clone()), Box::new(O(None)))]);
            out.push(vec![V(vec![O(None), b.clone()]), a.clone()]);
            out.push(vec![a.clone(), O(None), b.clone()]);
            out.push(vec![a.clone(), B(Box::new(V(vec![O(None), b.clone()])))]);
        }
    }
    // and_then trees directly on the Registry: an unfiltered layer next to a filtered one, and two
    // filtered layers with different hints
    for f in [FilterD::Lv(1), FilterD::Lv(3), FilterD::Fn(1, Some(3)), FilterD::Tg("a=info".into())] {
        out.push(vec![And(Box::new(L(1)), Box::new(F(Box::new(L(2)), f.clone())))]);
        out.push(vec![And(Box::new(F(Box::new(L(1)), f.clone())), Box::new(L(2)))]);
        out.push(vec![And(Box::new(F(Box::new(L(1)), FilterD::Lv(5))), Box::new(F(Box::new(L(2)), f.clone())))]);
        out.push(vec![And(Box::new(F(Box::new(L(1)), f.clone())), Box::new(F(Box::new(L(2)), FilterD::Lv(5))))]);
        out.push(vec![L(3), And(Box::new(L(1)), Box::new(F(Box::new(L(2)), f.clone())))]);
    }
    for g in &gs {
        out.push(vec![V(vec![G(g.clone()), L(1)])]);
        out.push(vec![V(vec![L(1), G(g.clone())])]);
        out.push(vec![V(vec![G(g.clone()), L(1)]), L(2)]);
        out.push(vec![L(1), V(vec![G(g.clone()), L(2)])]);
        out.push(vec![And(Box::new(G(g.clone())), Box::new(L(1)))]);
        out.push(vec![O(Some(Box::new(G(g.clone())))), L(1)]);
        out.push(vec![B(Box::new(G(g.clone()))), L(1)]);
        for f in &fs {
            out.push(vec![V(vec![G(g.clone()), F(Box::new(L(1)), f.clone())])]);
            out.push(vec![V(vec![G(g.clone()), L(1)]), F(Box::new(L(2)), f.clone())]);
            out.push(vec![F(Box::new(L(1)), f.clone()), O(None), G(g.clone())]);
        }
        // a group (Vec / and_then chain) with a `None` member next to a live member, on top of
        // a stricter layer: the group answers the "is none" probe for its member
        out.push(vec![G(g.clone()), V(vec![O(None), L(2)])]);
        out.push(vec![G(g.clone()), And(Box::new(O(None)), Box::new(L(2)))]);
        for g2 in &gs {
            out.push(vec![V(vec![G(g.clone()), G(g2.clone())]), L(1)]);
            out.push(vec![G(g.clone()), G(g2.clone()), L(1)]);
        }
    }
    out
}

#[derive(Serialize, Deserialize, Clone, Debug)]
enum Job {
    Exprs(Vec<FilterD>),
    Stacks(Vec<Vec<Node>>),
}

#[derive(Serialize, Deserialize, Clone, Debug, Default)]
struct Res {
    evals: u64,
    /// (case description json, violations)
    bad: Vec<(String, Vec<String>)>,
}

fn runner(job: &[u8]) -> Vec<u8> {
    let job: Job = serde_json::from_slice(job).unwrap();
    let mut res = Res::default();
    let per = (UNIVERSE.len() * contexts().len()) as u64;
    match job {
        Job::Exprs(es) => {
            for e in es {
                let r = std::panic::catch_unwind(|| check_expr(&e)).unwrap_or_else(|_| vec!["panic while evaluating the filter".into()]);
                res.evals += per;
                if !r.is_empty() {
                    res.bad.push((serde_json::to_string(&json!({"expr": e, "short": e.short()})).unwrap(), r));
                }
            }
        }
        Job::Stacks(ss) => {
            for s in ss {
                stack::flog_clear();
                let r = std::panic::catch_unwind(|| check_stack(&s)).unwrap_or_else(|_| vec!["panic while evaluating the stack".into()]);
                res.evals += per;
                if !r.is_empty() {
                    res.bad.push((serde_json::to_string(&json!({"stack": s})).unwrap(), r));
                }
            }
        }
    }
    serde_json::to_vec(&res).unwrap()
}

/// F11: a Vec of unfiltered layers answers the highest interest of its members although its
/// enabled() is their conjunction.
fn is_f11(case: &serde_json::Value, msg: &str) -> bool {
    fn has_vec_with_global(n: &serde_json::Value) -> bool {
        match n {
            serde_json::Value::Object(o) => {
                if let Some(v) = o.get("V") {
                    let items = v.as_array().cloned().unwrap_or_default();
                    let has_g = items.iter().any(|x| x.get("G").is_some());
                    if has_g && items.len() >= 2 {
                        return true;
                    }
                }
                o.values().any(has_vec_with_global)
            }
            serde_json::Value::Array(a) => a.iter().any(has_vec_with_global),
            _ => false,
        }
    }
    case.get("stack").map_or(false, has_vec_with_global) && msg.contains("register_callsite = always")
}

pub fn run(args: &Args) -> i32 {
    let mut rep = Report::new(args, "exploration");
    let f11_open = rep.is_open("F11");
    let f16_open = rep.is_open("F16");
    if let Some(p) = &args.replay {
        let v: serde_json::Value = serde_json::from_str(&std::fs::read_to_string(p).expect("read replay")).expect("json");
        let case = &v["case"];
        let viol = if case.get("expr").is_some() {
            check_expr(&serde_json::from_value(case["expr"].clone()).unwrap())
        } else {
            check_stack(&serde_json::from_value::<Vec<Node>>(case["stack"].clone()).unwrap())
        };
        let viol: Vec<String> = viol.into_iter().filter(|m| !(f11_open && is_f11(case, m)) && !(f16_open && is_f16(case, m))).collect();
        for x in &viol {
            println!("VIOLATION property={} replay={} :: {}", args.property, p, x);
        }
        if viol.is_empty() {
            println!("replay: no violation");
        }
        return i32::from(!viol.is_empty());
    }
    let es = exprs(args.tier);
    let ss = stack_configs(args.tier);
    let mut jobs: Vec<Job> = es.chunks(40).map(|c| Job::Exprs(c.to_vec())).collect();
    jobs.extend(ss.chunks(20).map(|c| Job::Stacks(c.to_vec())));
    let mut pool = Pool::new(mc::pool::default_workers(), runner, false, Duration::from_secs(600));
    let bytes: Vec<Vec<u8>> = jobs.iter().map(|j| serde_json::to_vec(j).unwrap()).collect();
    let mut evals = 0u64;
    let mut bad: Vec<(String, Vec<String>)> = vec![];
    let mut crashed = vec![];
    pool.run_list(bytes, |job, out| match out {
        Outcome::Ok(b) => {
            let r: Res = serde_json::from_slice(&b).unwrap();
            evals += r.evals;
            bad.extend(r.bad);
        }
        o => crashed.push(format!("{:?} on {}", o, String::from_utf8_lossy(&job[..job.len().min(200)]))),
    });
    for c in crashed {
        rep.machinery_error(c);
    }
    bad.sort();
    for (case, msgs) in &bad {
        let cv: serde_json::Value = serde_json::from_str(case).unwrap();
        let mut reported = false;
        for m in msgs {
            if f11_open && is_f11(&cv, m) {
                rep.known_hit("F11");
                continue;
            }
            if f16_open && is_f16(&cv, m) {
                rep.known_hit("F16");
                continue;
            }
            if !reported {
                let label = cv.get("short").and_then(|s| s.as_str()).map(String::from).unwrap_or_else(|| case.clone());
                rep.violation(format!("[{}] {} (+{} more for this case)", label, m, msgs.len() - 1), cv.clone());
                reported = true;
            }
        }
    }
    rep.cov("evaluations", evals);
    rep.cov("distinct_nontrivial", evals);
    rep.cov("filter_expressions", es.len() as u64);
    rep.cov("stacks", ss.len() as u64);
    rep.cov("metadata_universe", UNIVERSE.len() as u64);
    rep.cov("contexts", contexts().len() as u64);
    rep.cov("exhaustive", true);
    rep.cov("rule", "every filter expression of the stated depth over {6 level thresholds, 4 target tables, 4 static + 3 span-scoped/value-matching EnvFilters, 4 static closures and 2 context closures with and without a (true) hint, None} under {not, Some, reload, and, or} and every stack shape (C07's generator plus global filters inside Vec/Option/trees) x 26 static metadata (levels x targets a,b,a::x x event/span sp/span other) x 4 span contexts; each evaluation calls register_callsite/callsite_enabled once and enabled() per context through the Collect API and checks never=>false, always=>true, hint=>nothing above it; for stacks the cached-shortcut delivery (no enabled() call) is compared with the full path. Each (case, metadata, context) triple is a distinct evaluation.");
    rep.sample(json!({"expr": es[es.len() / 3].short(), "metadata": mdesc(UNIVERSE[7]), "context": "inside sp{k=1}"}));
    rep.sample(json!({"stack": ss[ss.len() / 2], "metadata": mdesc(UNIVERSE[14]), "context": "no span"}));
    rep.assume("closure filters are given only true upper bounds as hints (alphabet restriction: filters must be self-consistent)");
    rep.assume("interest caches of the macros are bypassed on purpose: summaries and dynamic answers are read through the Collect API");
    let _ = lf(0);
    rep.finish()
}

/// F16: EnvFilter answers `always` for every span callsite matched by a span directive (so that
/// it can observe the span), regardless of the directive's level; its enabled() for the same
/// span rejects it when the span's level is above the directive's.
fn is_f16(case: &serde_json::Value, msg: &str) -> bool {
    let s = case.to_string();
    // span directives below TRACE in the pool: (text, target prefix the directive is qualified with)
    let dirs: [(&str, &str); 2] = [("[sp{k=1}]=debug", ""), ("a[sp]=debug", "a")];
    // the span the message is about: "... for [span sp <target> TRACE] but ..."
    let about = |prefix: &str| -> Option<String> {
        let rest = msg.strip_prefix(prefix)?.strip_prefix("[span sp ")?;
        let (target, tail) = rest.split_once(' ')?;
        tail.starts_with("TRACE] but enabled() = ").then(|| target.to_string())
    };
    dirs.iter().any(|(d, tprefix)| {
        if !s.contains(d) {
            return false;
        }
        let direct = about("callsite_enabled = always for ").map_or(false, |t| t.starts_with(tprefix) && msg.contains("enabled() = false"));
        // seen through a `not` combinator the same inconsistency appears mirrored
        let mirrored = s.contains("\"Not\"") && about("callsite_enabled = never for ").map_or(false, |t| t.starts_with(tprefix) && msg.contains("enabled() = true"));
        direct || mirrored
    })
}
