//! C09 — every layer sees every notification exactly once; wrappers are transparent.
//! Exhaustive matrix: (stack shape x wrapper x nesting x position x collector wrapper) x a
//! workload that exercises every trait method, x {interest always, sometimes} x veto variants.
//! Oracles: (a) absolute per-occurrence counts and inner-before-outer order, (b) differential:
//! the per-layer view in a wrapped stack equals the view in the all-plain stack of the same size.
use crate::c09_stacks;
use crate::rl::{self, Rec, RL};
use mc::pool::{Outcome, Pool};
use mc::{Args, Report, Tier};
use serde::{Deserialize, Serialize};
use serde_json::json;
use std::collections::{BTreeMap, BTreeSet};
use std::sync::Mutex;
use std::time::Duration;
use tracing_core::{Collect, Dispatch};
use tracing_subscriber::subscribe::Subscribe;

#[derive(Clone, Debug, Serialize, Deserialize, Default)]
pub struct StackCfg {
    /// layers' interest: 1 sometimes, 2 always
    pub interest: u8,
    pub base_interest: u8,
    /// layer id that vetoes `enabled` for the callsite "veto_meta" (0 = none)
    pub veto_enabled_layer: u8,
    /// layer id that vetoes `event_enabled` for the event "veto_event" (0 = none)
    pub veto_event_layer: u8,
    /// the stack under test is `L1.with_filter(W(F1))` + L2: vetoes of "layer 1" are the filter's
    #[serde(default)]
    pub filter_stack: bool,
}

static CFG: Mutex<Option<StackCfg>> = Mutex::new(None);

pub fn cfg() -> StackCfg {
    CFG.lock().unwrap().clone().unwrap_or_default()
}

pub fn mk(id: u8) -> RL {
    let c = cfg();
    let mut l = RL::new(id, c.interest);
    if c.filter_stack && id == 1 {
        return l; // the veto belongs to the attached filter (mkf)
    }
    if c.veto_enabled_layer == id {
        l.veto_enabled = Some("veto_meta");
    }
    if c.veto_event_layer == id {
        l.veto_event = Some("veto_event");
    }
    l
}

pub fn mkf(id: u8) -> crate::rl::RF {
    let c = cfg();
    let mut f = crate::rl::RF::new(id, c.interest);
    if c.veto_enabled_layer == id {
        f.veto_enabled = Some("veto_meta");
    }
    if c.veto_event_layer == id {
        f.veto_event = Some("veto_event");
    }
    f
}

pub fn dynbox<C: Collect, L: Subscribe<C> + Send + Sync + 'static>(l: L) -> Box<dyn Subscribe<C> + Send + Sync + 'static> {
    Box::new(l)
}

fn workload(d: &Dispatch) {
    tracing_core::dispatch::with_default(d, || {
        let a = tracing::span!(tracing::Level::INFO, "A", f = 1);
        a.record("f", 2);
        let b = tracing::span!(tracing::Level::INFO, "B");
        b.follows_from(&a);
        a.in_scope(|| {
            // entering the span that is already current is one more occurrence of enter / exit
            a.in_scope(|| {});
            tracing::event!(name: "ev", tracing::Level::INFO, "hello");
        });
        let a2 = a.clone();
        drop(a2);
        // vetoes
        tracing::event!(name: "veto_meta", tracing::Level::INFO, "vetoed by metadata");
        tracing::event!(name: "veto_event", tracing::Level::INFO, "vetoed by event_enabled");
        rl::log('X', 0, "mark", "drops");
        drop(a);
        drop(b);
        rl::log('X', 0, "mark", "probes");

        if d.downcast_ref::<RL>().is_none() {
            rl::log('X', 0, "downcast_ref::<RL>", "none");
        } else {
            rl::log('X', 0, "downcast_ref::<RL>", "some");
        }
    });
}

#[derive(Serialize, Deserialize, Clone, Debug)]
struct Job {
    stack: usize,
    cfg: StackCfg,
}

#[derive(Serialize, Deserialize, Clone, Debug, Default)]
struct Out {
    log: Vec<Rec>,
    panicked: Option<String>,
}

fn runner(job: &[u8]) -> Vec<u8> {
    let job: Job = serde_json::from_slice(job).unwrap();
    *CFG.lock().unwrap() = Some(job.cfg.clone());
    rl::clear_log();
    let r = std::panic::catch_unwind(|| {
        let d = c09_stacks::build(job.stack);
        rl::log('X', 0, "mark", "built");
        workload(&d);
    });
    let out = Out {
        log: rl::log_since(0),
        panicked: r.err().map(|e| e.downcast_ref::<String>().cloned().or_else(|| e.downcast_ref::<&str>().map(|s| s.to_string())).unwrap_or_default()),
    };
    serde_json::to_vec(&out).unwrap()
}

/// kinds that are per-occurrence notifications, delivered inner layer first
const ORDERED: &[&str] = &["on_new_span", "on_record", "on_follows_from", "on_event", "on_enter", "on_exit", "on_close", "on_id_change"];

/// Absolute oracle on one stack's log.
fn judge(info: &c09_stacks::Info, c: &StackCfg, out: &Out, v: &mut Vec<String>) {
    if let Some(p) = &out.panicked {
        v.push(format!("panic: {}", p));
        return;
    }
    if info.descr.starts_with("filter-stack") {
        return judge_filter(c, out, v);
    }
    let n = info.layers as u8;
    let layers: Vec<u8> = (1..=n).collect();
    let by = |kind: &str, what_prefix: &str| -> Vec<u8> { out.log.iter().filter(|r| r.who == 'L' && r.kind == kind && r.what.starts_with(what_prefix)).map(|r| r.id).collect() };
    let expect_once_any_order = |kind: &str, what: &str, v: &mut Vec<String>| {
        let mut got = by(kind, what);
        got.sort();
        if got != layers {
            v.push(format!("{}({}) reached layers {:?}, expected each of {:?} exactly once", kind, what, got, layers));
        }
    };
    let expect_ordered = |kind: &str, what: &str, times: usize, v: &mut Vec<String>| {
        let got = by(kind, what);
        let want: Vec<u8> = (0..times).flat_map(|_| layers.clone()).collect();
        if got != want {
            v.push(format!("{}({}) reached layers {:?}, expected {:?} (each exactly once per occurrence, inner before outer)", kind, what, got, want));
        }
    };
    expect_once_any_order("on_subscribe", "", v);
    expect_once_any_order("on_register_dispatch", "", v);
    for cs in ["A", "B", "ev"] {
        expect_once_any_order("register_callsite", cs, v);
    }
    expect_ordered("on_new_span", "A#", 1, v);
    expect_ordered("on_new_span", "B#", 1, v);
    expect_ordered("on_record", "", 1, v);
    expect_ordered("on_follows_from", "", 1, v);
    expect_ordered("on_enter", "", 2, v);
    expect_ordered("on_exit", "", 2, v);
    expect_ordered("on_event", "ev", 1, v);
    // the recording base collector reports every try_close as a close (3 handles); the Registry only the last of each span
    expect_ordered("on_close", "", if info.base_rc { 3 } else { 2 }, v);
    if info.base_rc {
        // the id-changing collector: one clone => one on_id_change per layer
        expect_ordered("on_id_change", "", 1, v);
    }
    // vetoes stop delivery to all; without a veto everybody gets the event
    let veto_meta = by("on_event", "veto_meta");
    let veto_event = by("on_event", "veto_event");
    if c.veto_enabled_layer != 0 && c.veto_enabled_layer <= n && c.interest == 1 {
        if !veto_meta.is_empty() {
            v.push(format!("layer {} vetoed the metadata of 'veto_meta' but on_event reached {:?}", c.veto_enabled_layer, veto_meta));
        }
    } else if veto_meta != layers {
        v.push(format!("on_event(veto_meta) reached {:?}, expected {:?}", veto_meta, layers));
    }
    if c.veto_event_layer != 0 && c.veto_event_layer <= n {
        if !veto_event.is_empty() {
            v.push(format!("layer {} vetoed event 'veto_event' in event_enabled but on_event reached {:?}", c.veto_event_layer, veto_event));
        }
    } else if veto_event != layers {
        v.push(format!("on_event(veto_event) reached {:?}, expected {:?}", veto_event, layers));
    }
    // (reload::Subscriber deliberately refuses to downcast through its lock, so a stack whose
    // layers all sit behind a reload wrapper cannot be asked)
    if n > 0 && !info.descr.contains("reload") && !out.log.iter().any(|r| r.kind == "downcast_ref::<RL>" && r.what == "some") {
        v.push("downcast_ref::<RL>() through the stack found no layer".into());
    }
    // the base collector (id-changing recorder) sees each call once as well
    if info.base_rc {
        for (kind, times) in [("on_register_dispatch", 1usize), ("new_span", 2), ("record", 1), ("record_follows_from", 1), ("enter", 2), ("exit", 2), ("clone_span", 1)] {
            let got = out.log.iter().filter(|r| r.who == 'C' && r.kind == kind).count();
            if got != times {
                v.push(format!("base collector saw {} x{}, expected x{}", kind, got, times));
            }
        }
    }
}

/// `L1.with_filter(W(F1))` + plain L2: the wrapped filter sees every Filter method, its vetoes
/// hide the event from L1 only, and the neighbour L2 is unaffected.
fn judge_filter(c: &StackCfg, out: &Out, v: &mut Vec<String>) {
    let count = |who: char, id: u8, kind: &str, what: &str| out.log.iter().filter(|r| r.who == who && r.id == id && r.kind == kind && r.what.starts_with(what)).count();
    for kind in ["callsite_enabled", "on_new_span", "on_record", "on_enter", "on_exit", "on_close", "max_level_hint"] {
        if count('F', 1, kind, "") == 0 {
            v.push(format!("the wrapped filter never received {}", kind));
        }
    }
    if c.interest == 1 && count('F', 1, "enabled", "") == 0 {
        v.push("the wrapped filter (interest sometimes) was never asked enabled()".into());
    }
    if count('F', 1, "event_enabled", "") == 0 {
        v.push("the wrapped filter was never asked event_enabled()".into());
    }
    // L2 (unfiltered neighbour) sees everything exactly once
    for (kind, what, n) in [("on_new_span", "A#", 1), ("on_new_span", "B#", 1), ("on_record", "", 1), ("on_follows_from", "", 1), ("on_enter", "", 2), ("on_exit", "", 2), ("on_event", "ev", 1), ("on_event", "veto_meta", 1), ("on_event", "veto_event", 1), ("on_close", "", 2), ("on_register_dispatch", "", 1)] {
        let got = count('L', 2, kind, what);
        let want = if c.veto_enabled_layer == 2 && c.interest == 1 && what == "veto_meta" || c.veto_event_layer == 2 && what == "veto_event" { 0 } else { n };
        if got != want {
            v.push(format!("unfiltered neighbour L2 saw {}({}) x{}, expected x{}", kind, what, got, want));
        }
    }
    // L1 sees everything except what its filter (or a global veto by L2) rejected
    for (kind, what, n) in [("on_new_span", "A#", 1), ("on_new_span", "B#", 1), ("on_record", "", 1), ("on_follows_from", "", 1), ("on_enter", "", 2), ("on_exit", "", 2), ("on_event", "ev", 1), ("on_close", "", 2), ("on_register_dispatch", "", 1)] {
        let got = count('L', 1, kind, what);
        if got != n {
            v.push(format!("filtered layer L1 (accept-all filter) saw {}({}) x{}, expected x{}", kind, what, got, n));
        }
    }
    let vm = count('L', 1, "on_event", "veto_meta");
    let want_vm = if (c.veto_enabled_layer == 1 || c.veto_enabled_layer == 2) && c.interest == 1 { 0 } else { 1 };
    if vm != want_vm {
        v.push(format!("L1 saw on_event(veto_meta) x{}, expected x{} (filter enabled() veto)", vm, want_vm));
    }
    let ve = count('L', 1, "on_event", "veto_event");
    let want_ve = if c.veto_event_layer == 1 || c.veto_event_layer == 2 { 0 } else { 1 };
    if ve != want_ve {
        v.push(format!("L1 saw on_event(veto_event) x{}, expected x{} (filter event_enabled() veto)", ve, want_ve));
    }
}

/// per-layer view for the differential oracle
fn view(out: &Out, layer: u8, skip_decisions: bool) -> Vec<String> {
    out.log
        .iter()
        .filter(|r| r.who == 'L' && r.id == layer)
        .filter(|r| !(skip_decisions && (r.kind == "enabled" || r.kind == "event_enabled" || r.kind == "register_callsite")))
        .map(|r| {
            // span ids differ between the Registry and the recording collector but not between
            // stacks over the same base, so they stay in the view
            format!("{}({})", r.kind, r.what)
        })
        .collect()
}

fn replay(args: &Args, path: &str) -> i32 {
    let v: serde_json::Value = serde_json::from_str(&std::fs::read_to_string(path).expect("read replay")).expect("json");
    let descr = v["case"]["descr"].as_str().expect("descr").to_string();
    let mut c: StackCfg = serde_json::from_value(v["case"]["cfg"].clone()).expect("cfg");
    let Some(stack) = (0..c09_stacks::N).find(|i| c09_stacks::info(*i).descr == descr) else {
        println!("MACHINERY-ERROR property={} unknown stack {}", args.property, descr);
        return 2;
    };
    let info = c09_stacks::info(stack);
    c.filter_stack = descr.starts_with("filter-stack");
    let job = serde_json::to_vec(&Job { stack, cfg: c.clone() }).unwrap();
    match mc::pool::run_isolated(runner, &job, Duration::from_secs(30)) {
        Outcome::Ok(b) => {
            let out: Out = serde_json::from_slice(&b).unwrap();
            for r in &out.log {
                println!("  {}{} {}({})", r.who, r.id, r.kind, r.what);
            }
            let mut viol = vec![];
            judge(&info, &c, &out, &mut viol);
            if viol.is_empty() {
                println!("replay: no violation of the absolute oracle on [{}] (the differential oracle needs the full run)", descr);
                0
            } else {
                for x in viol {
                    println!("VIOLATION property={} replay={} :: [{}] {}", args.property, path, descr, x);
                }
                1
            }
        }
        o => {
            println!("VIOLATION property={} replay={} :: child {:?}", args.property, path, o);
            1
        }
    }
}

pub fn run(args: &Args) -> i32 {
    if let Some(p) = &args.replay {
        return replay(args, p);
    }
    let mut rep = Report::new(args, "exploration");
    let open: BTreeSet<String> = ["F4", "F5", "F6", "F7"].iter().filter(|f| rep.is_open(f)).map(|s| s.to_string()).collect();
    let mut pool = Pool::new(mc::pool::default_workers(), runner, true, Duration::from_secs(30));
    let mut cfgs = vec![];
    for interest in [2u8, 1u8] {
        cfgs.push(StackCfg { interest, base_interest: interest, veto_enabled_layer: 0, veto_event_layer: 0, filter_stack: false });
        for l in 1..=3u8 {
            cfgs.push(StackCfg { interest, base_interest: interest, veto_enabled_layer: l, veto_event_layer: 0, filter_stack: false });
            cfgs.push(StackCfg { interest, base_interest: interest, veto_enabled_layer: 0, veto_event_layer: l, filter_stack: false });
        }
    }
    let mut jobs = vec![];
    for i in 0..c09_stacks::N {
        let info = c09_stacks::info(i);
        if info.thorough_only && args.tier == Tier::Quick {
            continue;
        }
        for c in &cfgs {
            if c.veto_enabled_layer as usize > info.layers || c.veto_event_layer as usize > info.layers {
                continue;
            }
            let mut c = c.clone();
            c.filter_stack = info.descr.starts_with("filter-stack");
            jobs.push(Job { stack: i, cfg: c });
        }
    }
    let total = jobs.len();
    let mut results: BTreeMap<(usize, String), Out> = BTreeMap::new();
    let bytes: Vec<Vec<u8>> = jobs.iter().map(|j| serde_json::to_vec(j).unwrap()).collect();
    let mut crashed = vec![];
    pool.run_list(bytes, |job, out| {
        let j: Job = serde_json::from_slice(job).unwrap();
        match out {
            Outcome::Ok(b) => {
                results.insert((j.stack, serde_json::to_string(&j.cfg).unwrap()), serde_json::from_slice(&b).unwrap());
            }
            o => crashed.push((j, format!("{:?}", o))),
        }
    });
    for (j, o) in crashed {
        rep.violation(format!("stack {} crashed: {}", c09_stacks::info(j.stack).descr, o), serde_json::to_value(&j).unwrap());
    }
    // reference stacks: all-plain stack of the same size over the same base
    let mut reference: BTreeMap<(usize, bool), usize> = BTreeMap::new();
    for i in 0..c09_stacks::N {
        let info = c09_stacks::info(i);
        let plain = format!("base={} cw=plain layers=[{}] ow=plain", if info.base_rc { "rc" } else { "reg" }, vec!["plain"; info.layers].join(", "));
        if info.descr == plain {
            reference.insert((info.layers, info.base_rc), i);
        }
    }
    let mut evals = 0u64;
    let mut cells = BTreeSet::new();
    let mut viol_count: BTreeMap<String, u64> = BTreeMap::new();
    for ((stack, cfgs_), out) in &results {
        let info = c09_stacks::info(*stack);
        let c: StackCfg = serde_json::from_str(cfgs_).unwrap();
        evals += 1;
        cells.insert(format!("{}|{}", info.descr, cfgs_));
        let mut v = vec![];
        judge(&info, &c, out, &mut v);
        // differential oracle
        if info.descr.starts_with("filter-stack") {
            let plain = (0..c09_stacks::N).find(|i| c09_stacks::info(*i).descr == "filter-stack fw=plain").unwrap();
            if let Some(rout) = results.get(&(plain, cfgs_.clone())) {
                for who in ['F', 'L'] {
                    let f = |o: &Out| -> Vec<String> { o.log.iter().filter(|r| r.who == who && !(r.who == 'F' && r.kind == "max_level_hint")).map(|r| format!("{}{}:{}({})", r.who, r.id, r.kind, r.what)).collect() };
                    let (a, b) = (f(out), f(rout));
                    if a != b && out.panicked.is_none() {
                        let first = a.iter().zip(b.iter()).position(|(x, y)| x != y).unwrap_or(a.len().min(b.len()));
                        v.push(format!("with the wrapped filter the {} log differs from the unwrapped filter's at #{}: got {:?}, unwrapped {:?}", who, first, a.get(first), b.get(first)));
                    }
                }
            }
        } else if let Some(r) = reference.get(&(info.layers, info.base_rc)) {
            if let Some(rout) = results.get(&(*r, cfgs_.clone())) {
                let filtered = info.descr.contains("filt");
                for l in 1..=info.layers as u8 {
                    let a = view(out, l, filtered);
                    let b = view(rout, l, filtered);
                    if a != b && out.panicked.is_none() {
                        let first = a.iter().zip(b.iter()).position(|(x, y)| x != y).unwrap_or(a.len().min(b.len()));
                        v.push(format!(
                            "layer {} observes a different sequence than in the unwrapped stack: at #{} got {:?}, unwrapped has {:?}",
                            l,
                            first,
                            a.get(first),
                            b.get(first)
                        ));
                    }
                }
            }
        }
        for msg in v {
            // known findings are attributed by the exact (wrapper, method) cell
            let known = attribute(&info, &msg);
            match known {
                Some(f) if open.contains(f) => rep.known_hit(f),
                _ => {
                    *viol_count.entry(msg.clone()).or_insert(0) += 1;
                    rep.violation(format!("[{}] {}", info.descr, msg), json!({"stack": stack, "descr": info.descr, "cfg": c}));
                }
            }
        }
    }
    rep.cov("evaluations", evals);
    rep.cov("distinct_nontrivial", cells.len() as u64);
    rep.cov("stacks", c09_stacks::N as u64);
    rep.cov("jobs", total as u64);
    rep.cov("exhaustive", true);
    rep.cov("rule", "every generated stack (1-5 recording layers over Registry or an id-changing recording collector; each wrapper Box/Box<dyn>/Some/vec![_]/reload/Filtered(accept-all)/and_then(Identity) at every position, every nested pair, None/empty Vec at every position, Box/Arc/Box<dyn>/Arc<dyn> around the base collector and around the whole stack) x {interest always, sometimes} x {no veto, enabled-veto by layer k, event_enabled-veto by layer k}; each cell runs a workload touching every Collect/Subscribe method in a fresh process and is judged by per-occurrence counts + order and by comparison with the unwrapped stack. A cell is distinct by (stack description, configuration).");
    rep.sample(json!({"stack": c09_stacks::info(0).descr, "cfg": cfgs[0]}));
    rep.sample(json!({"stack": c09_stacks::info(c09_stacks::N / 2).descr, "cfg": cfgs[3]}));
    rep.sample(json!({"stack": c09_stacks::info(c09_stacks::N - 1).descr, "cfg": cfgs[8]}));
    rep.assume("the order of register_callsite / enabled / on_register_dispatch calls between layers is not part of the property (only exactly-once)");
    rep.assume("a Filtered(accept-all) wrapper may change how often the wrapped layer's own enabled/event_enabled/register_callsite are consulted; those kinds are excluded from the differential view for that wrapper only");
    rep.finish()
}

/// Which known finding (if any) explains this deviation? Exact cells only.
fn attribute(info: &c09_stacks::Info, msg: &str) -> Option<&'static str> {
    let d = info.descr;
    // F6: `impl Collect for Layered` does not forward on_register_dispatch (affects every stack with >= 1 layer)
    if msg.starts_with("on_register_dispatch()") || msg.contains("on_register_dispatch x0") {
        return Some("F6");
    }
    let _ = d;
    None
}
