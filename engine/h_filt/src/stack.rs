//! Stack / filter descriptors, run-time builders (using the crate's own type erasure), the
//! callsite pool (real macros) and the stack-semantics reference model shared by C07, C08, C12.
use serde::{Deserialize, Serialize};
use std::sync::Mutex;
use tracing_core::{span, Collect, Dispatch, Event, LevelFilter, Metadata};
use tracing_subscriber::filter::{self, EnvFilter, FilterExt, Targets};
use tracing_subscriber::prelude::*;
use tracing_subscriber::registry::{LookupSpan, Registry};
use tracing_subscriber::subscribe::{Context, Filter, Subscribe};

pub fn lf(r: u8) -> LevelFilter {
    match r {
        0 => LevelFilter::OFF,
        1 => LevelFilter::ERROR,
        2 => LevelFilter::WARN,
        3 => LevelFilter::INFO,
        4 => LevelFilter::DEBUG,
        _ => LevelFilter::TRACE,
    }
}
pub fn rank(l: &tracing_core::Level) -> u8 {
    match *l {
        tracing_core::Level::ERROR => 1,
        tracing_core::Level::WARN => 2,
        tracing_core::Level::INFO => 3,
        tracing_core::Level::DEBUG => 4,
        _ => 5,
    }
}

#[derive(Clone, Debug, Serialize, Deserialize, PartialEq, Eq, Hash, PartialOrd, Ord)]
pub enum FilterD {
    Lv(u8),
    /// Targets directive string (static, unambiguous specificity)
    Tg(String),
    /// EnvFilter with static directives only
    Env(String),
    /// EnvFilter "warn,[sp]=trace": static default WARN, raised to TRACE inside (and for) spans named "sp"
    EnvSp,
    /// static closure predicate id, optional max-level hint rank
    Fn(u8, Option<u8>),
    /// context-dependent closure predicate id, optional hint
    Dyn(u8, Option<u8>),
    And(Box<FilterD>, Box<FilterD>),
    Or(Box<FilterD>, Box<FilterD>),
    Not(Box<FilterD>),
    Some_(Box<FilterD>),
    None_,
    Reload(Box<FilterD>),
}

#[derive(Clone, Debug, Serialize, Deserialize, PartialEq, Eq)]
pub enum Node {
    /// plain recording layer
    L(u8),
    /// a filter used as a layer (global filter): only Lv / Tg / Env
    G(FilterD),
    /// per-layer filter around a subtree
    F(Box<Node>, FilterD),
    And(Box<Node>, Box<Node>),
    V(Vec<Node>),
    O(Option<Box<Node>>),
    /// extra Box<dyn Subscribe> level
    B(Box<Node>),
}

#[derive(Clone, Debug, PartialEq, Eq)]
pub struct Meta {
    pub name: &'static str,
    pub level: u8,
    pub target: &'static str,
    pub is_span: bool,
}

// ---- reference semantics of filters ------------------------------------------------------------------

/// parse "a=info,b=error,warn" -> (directives, default)
fn parse_dirs(s: &str) -> (Vec<(String, u8)>, Option<u8>) {
    let lv = |x: &str| match x {
        "off" => 0,
        "error" => 1,
        "warn" => 2,
        "info" => 3,
        "debug" => 4,
        "trace" => 5,
        _ => panic!("bad level {}", x),
    };
    let mut d = vec![];
    let mut def = None;
    for p in s.split(',').filter(|p| !p.is_empty()) {
        match p.split_once('=') {
            Some((t, l)) => d.push((t.to_string(), lv(l))),
            None => def = Some(lv(p)),
        }
    }
    (d, def)
}

fn dirs_accept(s: &str, m: &Meta) -> bool {
    let (d, def) = parse_dirs(s);
    let best = d.iter().filter(|(t, _)| m.target.starts_with(t.as_str())).max_by_key(|(t, _)| t.len());
    match best {
        Some((_, l)) => m.level <= *l,
        None => def.map_or(false, |l| m.level <= l),
    }
}

impl FilterD {
    /// `ctx`: names of the entered spans visible to this filter's layer, outermost first
    pub fn accepts(&self, m: &Meta, ctx: &[&'static str]) -> bool {
        match self {
            FilterD::Lv(r) => m.level <= *r,
            FilterD::Tg(s) | FilterD::Env(s) => dirs_accept(s, m),
            FilterD::EnvSp => m.level <= 2 || (m.is_span && m.name == "sp") || ctx.contains(&"sp"),
            FilterD::Fn(p, _) => match p {
                0 => m.target == "b",
                1 => m.level <= 3 && m.target == "a",
                2 => m.is_span || m.level <= 1,
                _ => m.level != 3,
            },
            FilterD::Dyn(p, _) => match p {
                0 => !ctx.is_empty(),
                _ => ctx.last() == Some(&"sp"),
            },
            FilterD::And(a, b) => a.accepts(m, ctx) && b.accepts(m, ctx),
            FilterD::Or(a, b) => a.accepts(m, ctx) || b.accepts(m, ctx),
            FilterD::Not(a) => !a.accepts(m, ctx),
            FilterD::Some_(a) | FilterD::Reload(a) => a.accepts(m, ctx),
            FilterD::None_ => true,
        }
    }
    pub fn is_dynamic(&self) -> bool {
        match self {
            FilterD::Dyn(..) | FilterD::EnvSp => true,
            FilterD::And(a, b) | FilterD::Or(a, b) => a.is_dynamic() || b.is_dynamic(),
            FilterD::Not(a) | FilterD::Some_(a) | FilterD::Reload(a) => a.is_dynamic(),
            _ => false,
        }
    }
    pub fn short(&self) -> String {
        match self {
            FilterD::Lv(r) => format!("{}", lf(*r)),
            FilterD::Tg(s) => format!("Targets({})", s),
            FilterD::Env(s) => format!("Env({})", s),
            FilterD::EnvSp => "Env(warn,[sp]=trace)".into(),
            FilterD::Fn(p, h) => format!("fn{}{}", p, h.map_or(String::new(), |h| format!("^{}", h))),
            FilterD::Dyn(p, h) => format!("dyn{}{}", p, h.map_or(String::new(), |h| format!("^{}", h))),
            FilterD::And(a, b) => format!("({} & {})", a.short(), b.short()),
            FilterD::Or(a, b) => format!("({} | {})", a.short(), b.short()),
            FilterD::Not(a) => format!("!{}", a.short()),
            FilterD::Some_(a) => format!("Some({})", a.short()),
            FilterD::None_ => "None".into(),
            FilterD::Reload(a) => format!("reload({})", a.short()),
        }
    }
}

// ---- builders -----------------------------------------------------------------------------------------

pub type BF<C> = Box<dyn Filter<C> + Send + Sync + 'static>;
pub type BS<C> = Box<dyn Subscribe<C> + Send + Sync + 'static>;

pub fn build_filter<C>(f: &FilterD) -> BF<C>
where
    C: Collect + for<'a> LookupSpan<'a> + 'static,
{
    match f {
        FilterD::Lv(r) => Box::new(lf(*r)),
        FilterD::Tg(s) => Box::new(s.parse::<Targets>().expect("targets")),
        FilterD::Env(s) => Box::new(EnvFilter::new(s)),
        FilterD::EnvSp => Box::new(EnvFilter::new("warn,[sp]=trace")),
        FilterD::Fn(p, h) => {
            let p = *p;
            let ff = filter::filter_fn(move |m: &Metadata<'_>| {
                let mm = Meta { name: "", level: rank(m.level()), target: if m.target() == "a" { "a" } else { "b" }, is_span: m.is_span() };
                FilterD::Fn(p, None).accepts(&mm, &[])
            });
            match h {
                Some(h) => Box::new(ff.with_max_level_hint(lf(*h))),
                None => Box::new(ff),
            }
        }
        FilterD::Dyn(p, h) => {
            let p = *p;
            let ff = filter::dynamic_filter_fn(move |_m: &Metadata<'_>, cx: &Context<'_, C>| match p {
                0 => cx.lookup_current().is_some(),
                _ => cx.lookup_current().map_or(false, |s| s.name() == "sp"),
            });
            match h {
                Some(h) => Box::new(ff.with_max_level_hint(lf(*h))),
                None => Box::new(ff),
            }
        }
        FilterD::And(a, b) => Box::new(build_filter::<C>(a).and(build_filter::<C>(b))),
        FilterD::Or(a, b) => Box::new(build_filter::<C>(a).or(build_filter::<C>(b))),
        FilterD::Not(a) => Box::new(build_filter::<C>(a).not()),
        FilterD::Some_(a) => Box::new(Some(build_filter::<C>(a))),
        FilterD::None_ => Box::new(None::<LevelFilter>),
        FilterD::Reload(a) => Box::new(tracing_subscriber::reload::Subscriber::new(build_filter::<C>(a)).0),
    }
}

pub fn build_node<C>(n: &Node) -> BS<C>
where
    C: Collect + for<'a> LookupSpan<'a> + Send + Sync + 'static,
{
    match n {
        Node::L(id) => Box::new(FL { id: *id }),
        Node::G(f) => match f {
            FilterD::Lv(r) => Box::new(lf(*r)),
            FilterD::Tg(s) => Box::new(s.parse::<Targets>().expect("targets")),
            FilterD::Env(s) => Box::new(EnvFilter::new(s)),
            FilterD::EnvSp => Box::new(EnvFilter::new("warn,[sp]=trace")),
            _ => panic!("not usable as a global filter layer: {:?}", f),
        },
        Node::F(inner, f) => Box::new(build_node::<C>(inner).with_filter(build_filter::<C>(f))),
        Node::And(a, b) => Box::new(build_node::<C>(a).and_then(build_node::<C>(b))),
        Node::V(v) => Box::new(v.iter().map(|x| build_node::<C>(x)).collect::<Vec<_>>()),
        Node::O(o) => Box::new(o.as_ref().map(|x| build_node::<C>(x))),
        Node::B(inner) => Box::new(build_node::<C>(inner)),
    }
}

pub fn build_stack(nodes: &[Node]) -> Dispatch {
    match nodes.len() {
        1 => Dispatch::new(Registry::default().with(build_node(&nodes[0]))),
        2 => Dispatch::new(Registry::default().with(build_node(&nodes[0])).with(build_node(&nodes[1]))),
        3 => Dispatch::new(Registry::default().with(build_node(&nodes[0])).with(build_node(&nodes[1])).with(build_node(&nodes[2]))),
        4 => Dispatch::new(Registry::default().with(build_node(&nodes[0])).with(build_node(&nodes[1])).with(build_node(&nodes[2])).with(build_node(&nodes[3]))),
        n => panic!("unsupported stack depth {}", n),
    }
}

/// (layer id, filters on its path innermost first) for every recording layer; and global filters
pub fn layers_of(nodes: &[Node]) -> (Vec<(u8, Vec<FilterD>)>, Vec<FilterD>) {
    fn walk(n: &Node, path: &mut Vec<FilterD>, out: &mut Vec<(u8, Vec<FilterD>)>, globals: &mut Vec<FilterD>, top: bool) {
        match n {
            Node::L(id) => out.push((*id, path.iter().rev().cloned().collect())),
            Node::G(f) => {
                let _ = top;
                globals.push(f.clone())
            }
            Node::F(inner, f) => {
                path.push(f.clone());
                walk(inner, path, out, globals, false);
                path.pop();
            }
            Node::And(a, b) => {
                walk(a, path, out, globals, false);
                walk(b, path, out, globals, false);
            }
            Node::V(v) => v.iter().for_each(|x| walk(x, path, out, globals, false)),
            Node::O(o) => {
                if let Some(x) = o {
                    walk(x, path, out, globals, false)
                }
            }
            Node::B(x) => walk(x, path, out, globals, top),
        }
    }
    let mut out = vec![];
    let mut g = vec![];
    for n in nodes {
        walk(n, &mut vec![], &mut out, &mut g, true);
    }
    (out, g)
}

// ---- recording layer with context probes ------------------------------------------------------------

#[derive(Clone, Debug, PartialEq, Eq, Serialize, Deserialize)]
pub struct FEv {
    pub layer: u8,
    pub kind: String,
    pub name: String,
    /// ctx.lookup_current() name
    pub current: Option<String>,
    /// scope names leaf -> root (event_scope / span scope)
    pub scope: Vec<String>,
    pub tid: u64,
}

pub static FLOG: Mutex<Vec<FEv>> = Mutex::new(Vec::new());

thread_local! {
    pub static HTID: std::cell::Cell<u64> = const { std::cell::Cell::new(0) };
}

pub fn flog_len() -> usize {
    FLOG.lock().unwrap_or_else(|e| e.into_inner()).len()
}
pub fn flog_since(n: usize) -> Vec<FEv> {
    FLOG.lock().unwrap_or_else(|e| e.into_inner())[n..].to_vec()
}
pub fn flog_clear() {
    FLOG.lock().unwrap_or_else(|e| e.into_inner()).clear()
}

pub struct FL {
    pub id: u8,
}

/// Walking up with `SpanRef::parent()` must visit exactly the spans `scope()` yields (both are
/// compared with the model through the scope); a difference is made visible in the logged kind.
fn parent_walk_kind<'a, R: LookupSpan<'a>>(kind: &str, start: Option<tracing_subscriber::registry::SpanRef<'a, R>>, scope: &[String]) -> String {
    let mut chain = vec![];
    let mut cur = start;
    while let Some(s) = cur {
        chain.push(s.name().to_string());
        if chain.len() > 16 {
            break;
        }
        cur = s.parent();
    }
    if chain == scope {
        kind.to_string()
    } else {
        format!("{}!parent()-walk={:?}", kind, chain)
    }
}

impl FL {
    fn push<C: Collect + for<'a> LookupSpan<'a>>(&self, kind: &str, name: &str, ctx: &Context<'_, C>, scope: Vec<String>) {
        let e = FEv {
            layer: self.id,
            kind: kind.into(),
            name: name.into(),
            current: ctx.lookup_current().map(|s| s.name().to_string()),
            scope,
            tid: HTID.with(|t| t.get()),
        };
        FLOG.lock().unwrap_or_else(|e| e.into_inner()).push(e);
    }
}

impl<C> Subscribe<C> for FL
where
    C: Collect + for<'a> LookupSpan<'a>,
{
    fn on_new_span(&self, a: &span::Attributes<'_>, id: &span::Id, ctx: Context<'_, C>) {
        let scope: Vec<String> = ctx.span_scope(id).map(|s| s.map(|x| x.name().to_string()).collect()).unwrap_or_default();
        let kind = parent_walk_kind("new_span", ctx.span(id), &scope);
        self.push(&kind, a.metadata().name(), &ctx, scope);
    }
    fn on_record(&self, id: &span::Id, _v: &span::Record<'_>, ctx: Context<'_, C>) {
        let n = ctx.span(id).map(|s| s.name().to_string()).unwrap_or_else(|| "<invisible>".into());
        self.push("record", &n, &ctx, vec![]);
    }
    fn on_event(&self, e: &Event<'_>, ctx: Context<'_, C>) {
        let scope: Vec<String> = ctx.event_scope(e).map(|s| s.map(|x| x.name().to_string()).collect()).unwrap_or_default();
        let kind = parent_walk_kind("event", ctx.event_span(e), &scope);
        self.push(&kind, e.metadata().name(), &ctx, scope);
    }
    fn on_enter(&self, id: &span::Id, ctx: Context<'_, C>) {
        let n = ctx.span(id).map(|s| s.name().to_string()).unwrap_or_else(|| "<invisible>".into());
        self.push("enter", &n, &ctx, vec![]);
    }
    fn on_exit(&self, id: &span::Id, ctx: Context<'_, C>) {
        let n = ctx.span(id).map(|s| s.name().to_string()).unwrap_or_else(|| "<invisible>".into());
        self.push("exit", &n, &ctx, vec![]);
    }
    fn on_close(&self, id: span::Id, ctx: Context<'_, C>) {
        let n = ctx.span(&id).map(|s| s.name().to_string()).unwrap_or_else(|| "<invisible>".into());
        self.push("close", &n, &ctx, vec![]);
    }
}

// ---- callsite pool (real macros) ----------------------------------------------------------------------

pub struct Cs {
    pub meta: Meta,
    pub emit: fn(),
    pub probe: fn() -> bool,
    pub open: fn() -> tracing::Span,
}

fn no_span() -> tracing::Span {
    tracing::Span::none()
}
fn nop() {}

macro_rules! ev {
    ($f:ident, $p:ident, $name:literal, $t:literal, $lvl:expr) => {
        fn $f() {
            tracing::event!(name: $name, target: $t, $lvl, "m");
        }
        fn $p() -> bool {
            tracing::enabled!(target: $t, $lvl)
        }
    };
}
macro_rules! sp {
    ($f:ident, $p:ident, $name:literal, $t:literal, $lvl:expr) => {
        fn $f() -> tracing::Span {
            tracing::span!(target: $t, $lvl, $name, f = tracing::field::Empty)
        }
        fn $p() -> bool {
            tracing::enabled!(kind: tracing::metadata::Kind::SPAN, target: $t, $lvl)
        }
    };
}
ev!(e0, p0, "e_error_a", "a", tracing::Level::ERROR);
ev!(e1, p1, "e_info_a", "a", tracing::Level::INFO);
ev!(e2, p2, "e_trace_a", "a", tracing::Level::TRACE);
ev!(e3, p3, "e_error_b", "b", tracing::Level::ERROR);
ev!(e4, p4, "e_info_b", "b", tracing::Level::INFO);
ev!(e5, p5, "e_trace_b", "b", tracing::Level::TRACE);
sp!(s0, q0, "sp", "a", tracing::Level::INFO);
sp!(s1, q1, "other", "b", tracing::Level::TRACE);
sp!(s2, q2, "sp2", "b", tracing::Level::ERROR);

/// the span callsites 6..8 once more with an explicit `parent: None` (root spans: their ancestors
/// are not the spans entered below them on the thread's stack)
pub fn open_root(i: usize) -> tracing::Span {
    match i {
        6 => tracing::span!(target: "a", parent: None, tracing::Level::INFO, "sp", f = tracing::field::Empty),
        7 => tracing::span!(target: "b", parent: None, tracing::Level::TRACE, "other", f = tracing::field::Empty),
        _ => tracing::span!(target: "b", parent: None, tracing::Level::ERROR, "sp2", f = tracing::field::Empty),
    }
}

/// two event callsites with an explicit parent span (their scope starts at that span, not at the
/// thread's current one)
pub fn emit_of(k: usize, parent: &tracing::Span) {
    match k {
        0 => tracing::event!(name: "x_error_a", target: "a", parent: parent, tracing::Level::ERROR, "m"),
        _ => tracing::event!(name: "x_info_b", target: "b", parent: parent, tracing::Level::INFO, "m"),
    }
}
pub fn of_meta(k: usize) -> Meta {
    match k {
        0 => Meta { name: "x_error_a", level: 1, target: "a", is_span: false },
        _ => Meta { name: "x_info_b", level: 3, target: "b", is_span: false },
    }
}

pub fn callsites() -> Vec<Cs> {
    let m = |name, level, target, is_span| Meta { name, level, target, is_span };
    vec![
        Cs { meta: m("e_error_a", 1, "a", false), emit: e0, probe: p0, open: no_span },
        Cs { meta: m("e_info_a", 3, "a", false), emit: e1, probe: p1, open: no_span },
        Cs { meta: m("e_trace_a", 5, "a", false), emit: e2, probe: p2, open: no_span },
        Cs { meta: m("e_error_b", 1, "b", false), emit: e3, probe: p3, open: no_span },
        Cs { meta: m("e_info_b", 3, "b", false), emit: e4, probe: p4, open: no_span },
        Cs { meta: m("e_trace_b", 5, "b", false), emit: e5, probe: p5, open: no_span },
        Cs { meta: m("sp", 3, "a", true), emit: nop, probe: q0, open: s0 },
        Cs { meta: m("other", 5, "b", true), emit: nop, probe: q1, open: s1 },
        Cs { meta: m("sp2", 1, "b", true), emit: nop, probe: q2, open: s2 },
    ]
}
