//! C07 — per-layer filters are isolated: a layer sees exactly what its own filters accept.
//! Engine H over (configurations x histories): for every generated stack, a breadth-first search
//! over histories of {event, open span (+enter), record, close, enabled! probe} through the real
//! macros, each history on a fresh OS thread with a freshly built Dispatch; the oracle is the
//! stack-semantics model (global filters AND the filters on the layer's own path).
use crate::stack::{self, callsites, layers_of, FEv, FilterD, Meta, Node};
use mc::pool::{Outcome, Pool};
use mc::{Args, Report, Tier};
use serde::{Deserialize, Serialize};
use serde_json::json;
use std::collections::{BTreeMap, BTreeSet, HashSet};
use std::time::Duration;

#[derive(Clone, Debug, Serialize, Deserialize)]
pub struct Config {
    /// one stack per thread (1 or 2 threads)
    pub stacks: Vec<Vec<Node>>,
    pub depth: usize,
    pub f3_open: bool,
    pub max_spans: usize,
}

#[derive(Clone, Debug, Serialize, Deserialize, Default)]
pub struct ConfigResult {
    pub states: u64,
    pub transitions: u64,
    pub violations: Vec<(Vec<String>, String)>,
    pub known: BTreeMap<String, u64>,
    pub cut: u64,
    pub outcomes: BTreeSet<String>,
    pub sample: Vec<String>,
}

#[derive(Clone, Debug, PartialEq, Eq, Hash)]
struct SpanRec {
    cs: usize,
    visible: Vec<u8>,
    /// per layer: verdict of each filter on its path (innermost first) on this span
    acc: Vec<(u8, Vec<bool>)>,
    /// the global filters accepted it (a globally rejected span is never created)
    exists: bool,
    /// index (in the thread's stack) of the span's parent: the span that was current in the
    /// registry when it was created, unless it was created as an explicit root
    parent: Option<usize>,
    /// the span handle is not disabled (taken from the implementation: a span that every per-layer
    /// filter rejects dynamically is still created, one that all reject statically is not; this
    /// only decides which entry later contextual spans hang under, never what a layer may see)
    created: bool,
}

#[derive(Default, Clone)]
struct StepOut {
    key: String,
    next: Vec<String>,
    violations: Vec<String>,
    known: Vec<String>,
    cut: bool,
    obs: String,
}

struct ThreadWorld {
    tx: std::sync::mpsc::Sender<Cmd>,
    rx: std::sync::mpsc::Receiver<Rep>,
    handle: Option<std::thread::JoinHandle<()>>,
}

enum Cmd {
    Ev(usize),
    EvOf(usize),
    Open(usize),
    OpenRoot(usize),
    Close,
    Rec,
    Probe(usize),
    Bits,
    Quit,
}

enum Rep {
    Done,
    Opened(bool),
    Bool(bool),
    Bits(u64),
    Panic(String),
}

fn spawn_thread(t: u64, d: tracing_core::Dispatch) -> ThreadWorld {
    let (ctx, crx) = std::sync::mpsc::channel::<Cmd>();
    let (rtx, rrx) = std::sync::mpsc::channel::<Rep>();
    let handle = std::thread::spawn(move || {
        stack::HTID.with(|x| x.set(t));
        let _g = tracing_core::dispatch::set_default(&d);
        let cs = callsites();
        let mut open: Vec<tracing::span::EnteredSpan> = vec![];
        loop {
            let Ok(cmd) = crx.recv() else { break };
            if let Cmd::Quit = cmd {
                break;
            }
            let r = std::panic::catch_unwind(std::panic::AssertUnwindSafe(|| match cmd {
                Cmd::Ev(i) => {
                    (cs[i].emit)();
                    Rep::Done
                }
                Cmd::EvOf(k) => {
                    // explicit parent: the outermost span this thread holds open
                    stack::emit_of(k, &open[0]);
                    Rep::Done
                }
                Cmd::Open(i) => {
                    let s = (cs[i].open)();
                    let enabled = !s.is_disabled();
                    open.push(s.entered());
                    Rep::Opened(enabled)
                }
                Cmd::OpenRoot(i) => {
                    let s = stack::open_root(i);
                    let enabled = !s.is_disabled();
                    open.push(s.entered());
                    Rep::Opened(enabled)
                }
                Cmd::Close => {
                    drop(open.pop());
                    Rep::Done
                }
                Cmd::Rec => {
                    if let Some(s) = open.last() {
                        s.record("f", 1);
                    }
                    Rep::Done
                }
                Cmd::Probe(i) => Rep::Bool((cs[i].probe)()),
                Cmd::Bits => Rep::Bits(tracing_subscriber::filter::__verif_filtering_bits().0),
                Cmd::Quit => Rep::Done,
            }));
            let rep = r.unwrap_or_else(|e| Rep::Panic(e.downcast_ref::<String>().cloned().or_else(|| e.downcast_ref::<&str>().map(|s| s.to_string())).unwrap_or_default()));
            if rtx.send(rep).is_err() {
                break;
            }
        }
        // close whatever is still open so that the Dispatch (and its registrar) really dies with
        // the history; a leaked dispatcher would take part in every later interest rebuild
        while let Some(s) = open.pop() {
            drop(s);
        }
    });
    ThreadWorld { tx: ctx, rx: rrx, handle: Some(handle) }
}

fn call(w: &ThreadWorld, c: Cmd) -> Rep {
    w.tx.send(c).unwrap();
    w.rx.recv().unwrap_or(Rep::Panic("worker thread died".into()))
}

/// Executes one history (fresh threads, fresh Dispatches) and judges every step.
fn run_history(cfg: &Config, history: &[String]) -> StepOut {
    let cs = callsites();
    let nthreads = cfg.stacks.len();
    let mut out = StepOut::default();
    let dispatches: Vec<tracing_core::Dispatch> = cfg.stacks.iter().map(|s| stack::build_stack(s)).collect();
    let info: Vec<(Vec<(u8, Vec<FilterD>)>, Vec<FilterD>)> = cfg.stacks.iter().map(|s| layers_of(s)).collect();
    let mut threads: Vec<ThreadWorld> = (0..nthreads).map(|t| spawn_thread(t as u64, dispatches[t].clone())).collect();
    let mut stacks: Vec<Vec<SpanRec>> = vec![vec![]; nthreads];
    // layers whose filters rejected a probe since the thread's filter bitmap was last clean (F3)
    let mut probe_rejecters: Vec<BTreeSet<u8>> = vec![BTreeSet::new(); nthreads];
    let mut bits: Vec<u64> = vec![0; nthreads];
    // abstraction of the registry's slot-reuse history: which per-layer visibility patterns closed
    // spans had (a reused slot must not leak the previous occupant's verdict)
    let mut closed_patterns: BTreeSet<Vec<u8>> = BTreeSet::new();
    for (step, op) in history.iter().enumerate() {
        let p: Vec<&str> = op.split(':').collect();
        let t: usize = p[0].parse().unwrap();
        let (layers, globals) = &info[t];
        let n0 = stack::flog_len();
        let bits_before = bits[t];
        // cached interest of the callsite about to be hit (F3 needs `always`: enabled() is skipped, so
        // nothing recomputes the stale bits; with `sometimes` enabled() runs and must overwrite them)
        let cached_interest: Option<u8> = if matches!(p[1], "ev" | "open" | "openroot" | "evof") {
            let name = if p[1] == "evof" { stack::of_meta(p[2].parse().unwrap()).name } else { cs[p[2].parse::<usize>().unwrap()].meta.name };
            tracing::__macro_support::__verif_snapshot().iter().find(|(m, _, _)| m.name() == name).map(|(_, i, _)| *i)
        } else {
            None
        };
        let visible_ctx = |st: &Vec<SpanRec>, l: u8| -> Vec<&'static str> { st.iter().filter(|s| s.visible.contains(&l)).map(|s| cs[s.cs].meta.name).collect() };
        // the spans layer `l` finds by walking up from stack entry `j` through the parent links
        let scope_from = |st: &Vec<SpanRec>, j: Option<usize>, l: u8| -> Vec<String> {
            let mut out = vec![];
            let mut cur = j;
            while let Some(i) = cur {
                if st[i].visible.contains(&l) {
                    out.push(cs[st[i].cs].meta.name.to_string());
                }
                cur = st[i].parent;
            }
            out
        };
        // the entry `lookup_current()` yields for layer `l`: the topmost entered span it can see
        let current_idx = |st: &Vec<SpanRec>, l: u8| -> Option<usize> { st.iter().rposition(|s| s.visible.contains(&l)) };
        // verdict of every filter on every layer's path; filter k sees the spans that it and every
        // filter outside it accepted (Context::with_filter combines the ids from the outside in)
        let verdicts = |m: &Meta, st: &Vec<SpanRec>| -> Vec<(u8, Vec<bool>)> {
            layers
                .iter()
                .map(|(l, path)| {
                    let acc: Vec<bool> = (0..path.len())
                        .map(|k| {
                            let ctx: Vec<&'static str> = st
                                .iter()
                                .filter(|s| s.exists && s.acc.iter().find(|a| a.0 == *l).map_or(true, |a| a.1[k..].iter().all(|x| *x)))
                                .map(|s| cs[s.cs].meta.name)
                                .collect();
                            path[k].accepts(m, &ctx)
                        })
                        .collect();
                    (*l, acc)
                })
                .collect()
        };
        let receivers = |m: &Meta, st: &Vec<SpanRec>| -> Vec<u8> {
            // a global filter (a filter used as a layer) sees every entered span
            let all_ctx: Vec<&'static str> = st.iter().filter(|s| s.exists).map(|s| cs[s.cs].meta.name).collect();
            if !globals.iter().all(|g| g.accepts(m, &all_ctx)) {
                return vec![];
            }
            verdicts(m, st).into_iter().filter(|(_, acc)| acc.iter().all(|x| *x)).map(|(l, _)| l).collect()
        };
        let mut fail = |out: &mut StepOut, msg: String| out.violations.push(format!("step {} ({}): {}", step, op, msg));
        // expected log entries for this step, per layer, in order
        let mut expected: Vec<(u8, String, String, Option<String>, Option<Vec<String>>)> = vec![]; // (layer, kind, name, current, scope)
        let mut emission: Option<(Meta, Vec<u8>)> = None;
        let mut alt_scope: Vec<(u8, Vec<String>)> = vec![];
        let reply;
        match p[1] {
            "ev" => {
                let i: usize = p[2].parse().unwrap();
                let m = cs[i].meta.clone();
                let r = receivers(&m, &stacks[t]);
                for l in &r {
                    let ctx = visible_ctx(&stacks[t], *l);
                    let scope: Vec<String> = scope_from(&stacks[t], current_idx(&stacks[t], *l), *l);
                    expected.push((*l, "event".into(), m.name.into(), ctx.last().map(|s| s.to_string()), Some(scope)));
                }
                emission = Some((m, r));
                reply = call(&threads[t], Cmd::Ev(i));
            }
            "evof" => {
                let k: usize = p[2].parse().unwrap();
                let m = stack::of_meta(k);
                let r = receivers(&m, &stacks[t]);
                for l in &r {
                    let ctx = visible_ctx(&stacks[t], *l);
                    // a layer that does not see the explicit parent finds no span for the event
                    // (the pinned behaviour) or, at most, the parent's own visible ancestors: never
                    // a span outside the parent's chain
                    let chain = scope_from(&stacks[t], Some(0), *l);
                    if stacks[t][0].visible.contains(l) {
                        expected.push((*l, "event".into(), m.name.into(), ctx.last().map(|s| s.to_string()), Some(chain)));
                    } else {
                        expected.push((*l, "event".into(), m.name.into(), ctx.last().map(|s| s.to_string()), Some(vec![])));
                        alt_scope.push((*l, chain));
                    }
                }
                emission = Some((m, r));
                reply = call(&threads[t], Cmd::EvOf(k));
            }
            "open" | "openroot" => {
                let i: usize = p[2].parse().unwrap();
                let root = p[1] == "openroot";
                let m = cs[i].meta.clone();
                let r = receivers(&m, &stacks[t]);
                // the contextual parent is the thread's current span in the registry: the topmost
                // entry whose span was actually created
                let parent: Option<usize> = if root { None } else { stacks[t].iter().rposition(|s| s.created) };
                for l in &r {
                    let ctx = visible_ctx(&stacks[t], *l);
                    let mut scope: Vec<String> = vec![m.name.to_string()];
                    scope.extend(scope_from(&stacks[t], parent, *l));
                    expected.push((*l, "new_span".into(), m.name.into(), ctx.last().map(|s| s.to_string()), Some(scope)));
                }
                for l in &r {
                    expected.push((*l, "enter".into(), m.name.into(), Some(m.name.to_string()), None));
                }
                let exists = {
                    let ctx: Vec<&'static str> = stacks[t].iter().filter(|s| s.exists).map(|s| cs[s.cs].meta.name).collect();
                    globals.iter().all(|g| g.accepts(&m, &ctx))
                };
                let acc = verdicts(&m, &stacks[t]);
                emission = Some((m, r.clone()));
                reply = call(&threads[t], if root { Cmd::OpenRoot(i) } else { Cmd::Open(i) });
                let created = matches!(reply, Rep::Opened(true));
                stacks[t].push(SpanRec { cs: i, visible: r, acc, exists, parent, created });
            }
            "rec" => {
                let top = stacks[t].last().unwrap().clone();
                for l in &top.visible {
                    expected.push((*l, "record".into(), cs[top.cs].meta.name.into(), None, None));
                }
                reply = call(&threads[t], Cmd::Rec);
            }
            "close" => {
                let top = stacks[t].pop().unwrap();
                if top.exists {
                    closed_patterns.insert(top.visible.clone());
                }
                for kind in ["exit", "close"] {
                    for l in &top.visible {
                        let ctx = visible_ctx(&stacks[t], *l);
                        expected.push((*l, kind.into(), cs[top.cs].meta.name.into(), ctx.last().map(|s| s.to_string()), None));
                    }
                }
                reply = call(&threads[t], Cmd::Close);
            }
            "probe" => {
                let i: usize = p[2].parse().unwrap();
                // enabled! builds its own hint metadata: same level/target/kind, but not the span's name
                let mut m = cs[i].meta.clone();
                m.name = "enabled!";
                let r = receivers(&m, &stacks[t]);
                let all_ctx: Vec<&'static str> = stacks[t].iter().filter(|s| s.exists).map(|s| cs[s.cs].meta.name).collect();
                let g_ok = globals.iter().all(|g| g.accepts(&m, &all_ctx));
                reply = call(&threads[t], Cmd::Probe(i));
                if let Rep::Bool(b) = reply {
                    // the probe's own answer: only its clear cases are judged
                    if !g_ok && b {
                        fail(&mut out, format!("enabled!({}) is true although a global filter rejects it", m.name));
                    }
                    if !r.is_empty() && !b {
                        fail(&mut out, format!("enabled!({}) is false although layers {:?} would receive it", m.name, r));
                    }
                    out.obs = format!("probe={}", b);
                }
                for (l, _) in layers.iter() {
                    if !r.contains(l) {
                        probe_rejecters[t].insert(*l);
                    }
                }
            }
            _ => panic!("bad op {}", op),
        }
        if let Rep::Panic(msg) = &reply {
            fail(&mut out, format!("panic: {}", msg));
        }
        bits[t] = match call(&threads[t], Cmd::Bits) {
            Rep::Bits(b) => b,
            _ => 0,
        };
        if std::env::var_os("VERIF_DEBUG").is_some() {
            eprintln!("step {} {} bits_before={:#x} bits_after={:#x} rejecters={:?}", step, op, bits_before, bits[t], probe_rejecters[t]);
        }
        let got: Vec<FEv> = stack::flog_since(n0);
        // other threads' stacks must not see anything of this thread's emission
        if got.iter().any(|e| e.tid != t as u64) {
            fail(&mut out, "a layer of another thread's stack was notified".into());
        }
        if p[1] != "probe" {
            // compare per layer, order within a layer preserved
            let mut ok = true;
            let mut layer_ids: BTreeSet<u8> = layers.iter().map(|x| x.0).collect();
            layer_ids.extend(got.iter().map(|e| e.layer));
            let mut missing_layers = BTreeSet::new();
            let mut extra = false;
            for l in layer_ids {
                let g: Vec<&FEv> = got.iter().filter(|e| e.layer == l).collect();
                let e: Vec<&(u8, String, String, Option<String>, Option<Vec<String>>)> = expected.iter().filter(|x| x.0 == l).collect();
                let same = g.len() == e.len()
                    && g.iter().zip(e.iter()).all(|(g, e)| g.kind == e.1 && g.name == e.2 && (e.1 == "record" || g.current == e.3) && e.4.as_ref().map_or(true, |s| &g.scope == s || alt_scope.iter().any(|(al, a)| *al == l && &g.scope == a)));
                if !same {
                    ok = false;
                    if g.is_empty() && !e.is_empty() {
                        missing_layers.insert(l);
                    } else {
                        extra = true;
                    }
                }
            }
            if !ok {
                // known finding F3: a stale per-layer-filter bit left by an earlier enabled! probe
                // is consumed by this emission; exactly the layers that rejected the probe miss it
                let f3 = cfg.f3_open && bits_before != 0 && cached_interest == Some(2) && !extra && emission.is_some() && missing_layers.iter().all(|l| probe_rejecters[t].contains(l)) && !matches!(reply, Rep::Panic(_));
                if f3 {
                    out.known.push("F3".into());
                    if p[1] == "open" || p[1] == "openroot" {
                        out.cut = true; // the span now carries the stale verdict for its whole life
                    }
                    // the model follows the implementation's verdict for the rest of the history
                    if let Some(top) = stacks[t].last_mut() {
                        if p[1] == "open" || p[1] == "openroot" {
                            top.visible.retain(|l| !missing_layers.contains(l));
                        }
                    }
                } else {
                    let show = |v: &Vec<&FEv>| v.iter().map(|e| format!("L{}:{}({}) cur={:?} scope={:?}", e.layer, e.kind, e.name, e.current, e.scope)).collect::<Vec<_>>();
                    fail(
                        &mut out,
                        format!(
                            "layers observed {:?}; the stack's filters say {:?}",
                            show(&got.iter().collect()),
                            expected.iter().map(|e| format!("L{}:{}({}) cur={:?} scope={:?}", e.0, e.1, e.2, e.3, e.4)).collect::<Vec<_>>()
                        ),
                    );
                }
            }
            out.obs = format!("{}->{:?}", p[1], got.iter().map(|e| e.layer).collect::<BTreeSet<_>>());
        }
        if bits[t] == 0 {
            probe_rejecters[t].clear();
        }
        if !out.violations.is_empty() || out.cut {
            break;
        }
    }
    for th in &threads {
        let _ = th.tx.send(Cmd::Quit);
    }
    for th in threads.iter_mut() {
        if let Some(h) = th.handle.take() {
            let _ = h.join();
        }
    }
    out.key = format!("{:?}|{:?}|{:?}", stacks, bits, closed_patterns);
    // enabled operations
    let mut next = vec![];
    for t in 0..nthreads {
        for i in 0..6 {
            next.push(format!("{}:ev:{}", t, i));
        }
        if !stacks[t].is_empty() {
            next.push(format!("{}:close", t));
            next.push(format!("{}:rec", t));
        }
        if stacks[t].len() < cfg.max_spans {
            for i in 6..9 {
                next.push(format!("{}:open:{}", t, i));
            }
            // (explicit-parent events only when the parent is not the current span)
            if stacks[t].len() >= 2 && stacks[t][0].created {
                for k in 0..2 {
                    next.push(format!("{}:evof:{}", t, k));
                }
            }
            // explicit roots only above an entered span (elsewhere they equal the contextual ones)
            if !stacks[t].is_empty() {
                for i in 6..9 {
                    next.push(format!("{}:openroot:{}", t, i));
                }
            }
        }
        for i in 0..9 {
            next.push(format!("{}:probe:{}", t, i));
        }
    }
    out.next = next;
    out
}

fn explore(cfg: &Config) -> ConfigResult {
    let mut res = ConfigResult::default();
    let mut seen: HashSet<String> = HashSet::new();
    let mut level: Vec<Vec<String>> = vec![vec![]];
    for depth in 0..=cfg.depth {
        let mut next_level = vec![];
        for h in &level {
            stack::flog_clear();
            let r = run_history(cfg, h);
            res.transitions += 1;
            res.outcomes.insert(r.obs.clone());
            for k in &r.known {
                *res.known.entry(k.clone()).or_insert(0) += 1;
            }
            if !r.violations.is_empty() {
                if res.violations.len() < 3 {
                    res.violations.push((h.clone(), r.violations.join(" ;; ")));
                }
                continue;
            }
            if r.cut {
                res.cut += 1;
                continue;
            }
            if seen.insert(r.key.clone()) {
                res.states += 1;
                if res.sample.is_empty() && h.len() >= 3 {
                    res.sample = h.clone();
                }
                if depth < cfg.depth {
                    for op in &r.next {
                        let mut nh = h.clone();
                        nh.push(op.clone());
                        next_level.push(nh);
                    }
                }
            }
        }
        if !res.violations.is_empty() {
            break;
        }
        level = next_level;
    }
    res
}

fn warm_up() {
    // register every callsite once so that "already registered" is uniform across histories
    let d = stack::build_stack(&[Node::L(1)]);
    tracing_core::dispatch::with_default(&d, || {
        for c in callsites() {
            (c.emit)();
            let _ = (c.probe)();
            drop((c.open)());
        }
        for i in 6..9 {
            drop(stack::open_root(i));
        }
        let sp = stack::open_root(6);
        stack::emit_of(0, &sp);
        stack::emit_of(1, &sp);
        drop(sp);
    });
    stack::flog_clear();
}

fn runner(job: &[u8]) -> Vec<u8> {
    static WARM: std::sync::Once = std::sync::Once::new();
    WARM.call_once(warm_up);
    let cfg: Config = serde_json::from_slice(job).unwrap();
    serde_json::to_vec(&explore(&cfg)).unwrap()
}

// ---- configuration generator -------------------------------------------------------------------------

pub fn filter_pool(tier: Tier) -> Vec<FilterD> {
    use FilterD::*;
    let b = |f: FilterD| Box::new(f);
    let mut v = vec![
        Lv(1),
        Lv(3),
        Lv(5),
        Tg("a=info".into()),
        Env("warn,a=trace".into()),
        Fn(0, None),
        Dyn(0, None),
        EnvSp,
        And(b(Lv(3)), b(Fn(0, None))),
        Or(b(Lv(1)), b(Tg("a=info".into()))),
        Not(b(Lv(3))),
        // a static filter combined with a context-dependent one, in both operand orders
        And(b(Lv(3)), b(Dyn(0, None))),
        And(b(Dyn(0, None)), b(Lv(3))),
        Or(b(Lv(1)), b(Dyn(0, None))),
    ];
    if tier == Tier::Thorough {
        v.extend([
            Lv(2),
            Tg("b=trace,a=error".into()),
            Env("a=debug,b=warn".into()),
            Fn(1, Some(3)),
            Fn(2, None),
            Dyn(1, Some(5)),
            And(b(Dyn(0, None)), b(Lv(3))),
            Or(b(Dyn(1, None)), b(Lv(1))),
            Not(b(Dyn(0, None))),
            Some_(b(Lv(3))),
            None_,
            Reload(b(Lv(3))),
            Not(b(Not(b(Tg("a=info".into()))))),
        ]);
    }
    v
}

pub fn configs(tier: Tier) -> Vec<Vec<Node>> {
    use Node::*;
    let pool = filter_pool(tier);
    let globals = vec![FilterD::Lv(3), FilterD::Tg("a=info,b=error".into()), FilterD::Env("warn,a=trace".into()), FilterD::EnvSp];
    let fl = |id: u8, f: &FilterD| F(Box::new(L(id)), f.clone());
    let mut out: Vec<Vec<Node>> = vec![];
    // (1) all flat chains of length 2 over {plain, global, filtered}
    let mut kinds1: Vec<Box<dyn std::ops::Fn(u8) -> Node>> = vec![Box::new(|id| L(id))];
    for g in &globals {
        let g = g.clone();
        kinds1.push(Box::new(move |_| G(g.clone())));
    }
    for f in &pool {
        let f = f.clone();
        kinds1.push(Box::new(move |id| F(Box::new(L(id)), f.clone())));
    }
    for a in &kinds1 {
        for b in &kinds1 {
            out.push(vec![a(1), b(2)]);
        }
    }
    // (2) chains of length 3 over a pairwise-interesting sub-pool
    let small: Vec<FilterD> = vec![FilterD::Lv(1), FilterD::Lv(3), FilterD::Fn(0, None), FilterD::Dyn(0, None)];
    let mut kinds3: Vec<Box<dyn std::ops::Fn(u8) -> Node>> = vec![Box::new(|id| L(id)), Box::new(|_| G(FilterD::Lv(3))), Box::new(|_| G(FilterD::EnvSp))];
    for f in &small {
        let f = f.clone();
        kinds3.push(Box::new(move |id| F(Box::new(L(id)), f.clone())));
    }
    for a in &kinds3 {
        for b in &kinds3 {
            for c in &kinds3 {
                out.push(vec![a(1), b(2), c(3)]);
            }
        }
    }
    // (3) shapes: trees, Vec, Option, Box, nested filters
    for f1 in &pool {
        for f2 in &small {
            out.push(vec![And(Box::new(fl(1, f1)), Box::new(L(2)))]);
            out.push(vec![F(Box::new(And(Box::new(L(1)), Box::new(fl(2, f2)))), f1.clone())]);
            out.push(vec![V(vec![fl(1, f1), fl(2, f2)])]);
            out.push(vec![V(vec![L(1), fl(2, f1)]), fl(3, f2)]);
            out.push(vec![O(Some(Box::new(fl(1, f1)))), fl(2, f2)]);
            out.push(vec![O(None), fl(1, f1), L(2)]);
            out.push(vec![B(Box::new(fl(1, f1))), B(Box::new(fl(2, f2)))]);
            out.push(vec![F(Box::new(fl(1, f1)), f2.clone()), L(2)]);
            out.push(vec![G(FilterD::Lv(3)), F(Box::new(V(vec![L(1), L(2)])), f1.clone()), fl(3, f2)]);
        }
    }
    out.sort_by_key(|c| serde_json::to_string(c).unwrap());
    out.dedup_by_key(|c| serde_json::to_string(c).unwrap());
    out
}

fn replay(args: &Args, path: &str) -> i32 {
    let v: serde_json::Value = serde_json::from_str(&std::fs::read_to_string(path).expect("read replay")).expect("json");
    let cfg: Config = serde_json::from_value(v["case"]["config"].clone()).expect("config");
    let history: Vec<String> = serde_json::from_value(v["case"]["history"].clone()).expect("history");
    warm_up();
    let r = run_history(&cfg, &history);
    println!("stacks: {}", serde_json::to_string(&cfg.stacks).unwrap());
    println!("history: {:?}", history);
    for e in stack::flog_since(0) {
        println!("  L{} {}({}) cur={:?} scope={:?}", e.layer, e.kind, e.name, e.current, e.scope);
    }
    if r.violations.is_empty() {
        println!("replay: no violation (known: {:?})", r.known);
        0
    } else {
        for x in r.violations {
            println!("VIOLATION property={} replay={} :: {}", args.property, path, x);
        }
        1
    }
}

pub fn run(args: &Args) -> i32 {
    if let Some(p) = &args.replay {
        return replay(args, p);
    }
    let mut rep = Report::new(args, "model_checking");
    let f3_open = rep.is_open("F3");
    let depth = std::env::var("VERIF_DEPTH").ok().and_then(|s| s.parse().ok()).unwrap_or(args.tier.pick(3, 5));
    let mut jobs: Vec<Config> = configs(args.tier).into_iter().map(|s| Config { stacks: vec![s], depth, f3_open, max_spans: 3 }).collect();
    // two different stacks live on two threads
    let all = configs(args.tier);
    let step = (all.len() / args.tier.pick(24, 200)).max(1);
    for (i, s) in all.iter().enumerate().step_by(step) {
        let other = &all[(i * 7 + 13) % all.len()];
        jobs.push(Config { stacks: vec![s.clone(), other.clone()], depth: depth.saturating_sub(1).max(2), f3_open, max_spans: 1 });
    }
    let njobs = jobs.len();
    let mut pool = Pool::new(mc::pool::default_workers(), runner, false, Duration::from_secs(600));
    let bytes: Vec<Vec<u8>> = jobs.iter().map(|j| serde_json::to_vec(j).unwrap()).collect();
    let mut states = 0u64;
    let mut trans = 0u64;
    let mut cut = 0u64;
    let mut outcomes = BTreeSet::new();
    let mut samples = vec![];
    let mut failed = vec![];
    let mut results = vec![];
    pool.run_list(bytes, |job, out| {
        let cfg: Config = serde_json::from_slice(job).unwrap();
        match out {
            Outcome::Ok(b) => results.push((cfg, serde_json::from_slice::<ConfigResult>(&b).unwrap())),
            o => failed.push((cfg, format!("{:?}", o))),
        }
    });
    for (cfg, o) in failed {
        rep.violation(format!("exploration of a stack crashed: {}", o), json!({"config": cfg, "history": []}));
    }
    results.sort_by_key(|(c, _)| serde_json::to_string(c).unwrap());
    for (cfg, r) in &results {
        states += r.states;
        trans += r.transitions;
        cut += r.cut;
        outcomes.extend(r.outcomes.iter().cloned());
        for (k, n) in &r.known {
            for _ in 0..*n {
                rep.known_hit(k);
            }
        }
        for (h, msg) in &r.violations {
            rep.violation(format!("[{}] {}", serde_json::to_string(&cfg.stacks).unwrap(), msg), json!({"config": cfg, "history": h}));
        }
        if samples.len() < 4 && !r.sample.is_empty() && (samples.len() * 97) % 3 == 0 {
            samples.push(json!({"stacks": cfg.stacks, "history": r.sample}));
        }
    }
    for s in samples {
        rep.sample(s);
    }
    rep.cov("states", states);
    rep.cov("transitions", trans);
    rep.cov("traces_validated_against_impl", trans);
    rep.cov("configurations", njobs as u64);
    rep.cov("depth", depth as u64);
    rep.cov("cut_by_known_finding", cut);
    rep.cov("distinct_outcomes", outcomes.len() as u64);
    rep.cov("filter_pool", json!(filter_pool(args.tier).iter().map(|f| f.short()).collect::<Vec<_>>()));
    rep.cov("explanation", "per configuration (stack of <=4 positions built from plain / global-filter / per-layer-filtered layers, nested in Layered trees, Vec, Option, Box) a breadth-first search over histories of {event x6, open span x3, record, close, enabled! probe x9}; states = distinct (model state: entered spans with their per-layer visibility, thread FILTERING bitmap read through the observation hook); transitions = histories executed through the real macros on a fresh OS thread with a freshly built Dispatch, oracle evaluated at every step");
    rep.assume("all callsites are pre-registered (first-hit behaviour is C01/C04's business); interest caches are recomputed by every Dispatch::new");
    rep.assume("the reference semantics of each filter kind (level threshold, target prefix table, static closures, context closures on the layer's visible current span, and/or/not) is the model in stack.rs");
    rep.assume("tracing-subscriber is built without its debug-only self-checks (release behaviour)");
    rep.finish()
}

pub fn bench() {
    warm_up();
    use Node::*;
    for (name, nodes) in [
        ("plain", vec![L(1), L(2)]),
        ("lv", vec![F(Box::new(L(1)), FilterD::Lv(3)), L(2)]),
        ("env", vec![F(Box::new(L(1)), FilterD::Env("warn,a=trace".into())), L(2)]),
        ("tg", vec![F(Box::new(L(1)), FilterD::Tg("a=info".into())), L(2)]),
    ] {
        let cfg = Config { stacks: vec![nodes], depth: 3, f3_open: true, max_spans: 2 };
        let t = std::time::Instant::now();
        let n = 200;
        for _ in 0..n {
            let _ = run_history(&cfg, &["0:ev:1".to_string(), "0:open:6".to_string(), "0:ev:0".to_string()]);
        }
        println!("{}: {:?} per history", name, t.elapsed() / n);
        let t = std::time::Instant::now();
        for _ in 0..n {
            let d = stack::build_stack(&cfg.stacks[0]);
            drop(d);
        }
        println!("{}: {:?} per build_stack", name, t.elapsed() / n);
    }
}
