//! C05 schedule part: every interleaving (up to a preemption bound) of the reference-count
//! operations of 2-3 real threads on shared spans, on the real Registry stack.
use crate::world::{self, LEv, ParentKind};
use mc::explore::{explore, ExploreCfg, SJob, SResult, Stats};
use mc::pool::Pool;
use mc::sched::{self, End, RunCfg};
use mc::{Args, Report, Tier};
use serde::{Deserialize, Serialize};
use serde_json::json;
use std::sync::{Arc, Mutex};
use std::time::{Duration, Instant};
use tracing::Span;
use tracing_core::{span, Dispatch};

#[derive(Clone, Debug, Serialize, Deserialize, PartialEq)]
pub enum SOp {
    /// new span in slot with parent kind "ctx" | "root" | "of<slot>"
    New(usize, String),
    Clone(usize),
    Drop(usize),
    Enter(usize),
    Exit(usize),
    /// Span::current() captured as an extra handle of whatever span is current
    Cur,
    /// setup only: clone a handle of the span in `slot` into thread `t`'s private pool
    Give(usize, usize),
}

#[derive(Clone, Debug, Serialize, Deserialize)]
pub struct Scenario {
    pub name: String,
    pub setup: Vec<SOp>,
    pub threads: Vec<Vec<SOp>>,
    /// known finding F20 is listed as open
    #[serde(default)]
    pub f20_open: bool,
}

struct W {
    own: Dispatch,
    /// private handle pools: pools[owner][slot]; owner = thread index, last = controller.
    /// The mutex is only ever held to move a handle in or out, never across a registry call.
    pools: Vec<Vec<Mutex<Vec<Span>>>>,
    ids: Vec<Mutex<Option<u64>>>,
    marks: Mutex<Vec<(usize, String, u64)>>, // (log index at mark time, kind, span id)
}

fn mark(w: &W, kind: &str, id: u64) {
    w.marks.lock().unwrap().push((world::log_len(), kind.to_string(), id));
}

fn exec(w: &W, me: usize, op: &SOp) {
    let take = |slot: usize| -> Option<Span> { w.pools[me][slot].lock().unwrap().pop() };
    let put = |slot: usize, s: Span| w.pools[me][slot].lock().unwrap().push(s);
    match op {
        SOp::New(slot, kind) => {
            let pk = if kind == "ctx" {
                ParentKind::Ctx
            } else if kind == "root" {
                ParentKind::Root
            } else {
                let p: usize = kind[2..].parse().unwrap();
                ParentKind::Of(span::Id::from_u64(w.ids[p].lock().unwrap().unwrap()))
            };
            let s = world::make_span(*slot, pk);
            *w.ids[*slot].lock().unwrap() = s.id().map(|i| i.into_u64());
            put(*slot, s);
        }
        SOp::Clone(slot) => {
            if let Some(h) = take(*slot) {
                let c = h.clone();
                put(*slot, h);
                put(*slot, c);
            }
        }
        SOp::Give(t, slot) => {
            if let Some(h) = take(*slot) {
                let c = h.clone();
                put(*slot, h);
                w.pools[*t][*slot].lock().unwrap().push(c);
            }
        }
        SOp::Drop(slot) => {
            if let Some(h) = take(*slot) {
                mark(w, "release.start", h.id().map_or(0, |i| i.into_u64()));
                drop(h);
            }
        }
        SOp::Enter(slot) => {
            let id = w.ids[*slot].lock().unwrap().unwrap();
            w.own.enter(&span::Id::from_u64(id));
        }
        SOp::Exit(slot) => {
            let id = w.ids[*slot].lock().unwrap().unwrap();
            mark(w, "release.start", id);
            w.own.exit(&span::Id::from_u64(id));
        }
        SOp::Cur => {
            let s = Span::current();
            if let Some(id) = s.id() {
                let id = id.into_u64();
                let slot = (0..4).find(|slot| *w.ids[*slot].lock().unwrap() == Some(id));
                if let Some(slot) = slot {
                    put(slot, s);
                }
            }
        }
    }
}

pub fn run_schedule(job: &[u8]) -> Vec<u8> {
    let job: SJob = serde_json::from_slice(job).unwrap();
    let sc: Scenario = serde_json::from_str(&job.scenario).unwrap();
    serde_json::to_vec(&run_scenario(&sc, job.prefix.clone(), job.record_steps)).unwrap()
}

fn run_scenario(sc: &Scenario, prefix: Vec<u8>, record_steps: bool) -> SResult {
    sched::install_hooks();
    let w = Arc::new(W {
        own: world::make_stack(0),
        pools: (0..=sc.threads.len()).map(|_| (0..4).map(|_| Mutex::new(vec![])).collect()).collect(),
        ids: (0..4).map(|_| Mutex::new(None)).collect(),
        marks: Mutex::new(vec![]),
    });
    tracing_core::dispatch::with_default(&w.own, || {
        for op in &sc.setup {
            exec(&w, sc.threads.len(), op);
        }
    });
    let bodies: Vec<Box<dyn FnOnce() + Send>> = sc
        .threads
        .iter()
        .enumerate()
        .map(|(me, ops)| {
            let ops = ops.clone();
            let w = w.clone();
            Box::new(move || {
                let _g = tracing_core::dispatch::set_default(&w.own);
                for op in &ops {
                    exec(&w, me, op);
                }
            }) as Box<dyn FnOnce() + Send>
        })
        .collect();
    let trace = sched::run_threads(RunCfg { prefix, horizon: 4000, record_steps }, bodies);
    let mut violations = vec![];
    match &trace.end {
        End::Done => {}
        End::Deadlock(wt) => violations.push(format!("deadlock: {:?}", wt)),
        End::Livelock => violations.push("livelock".into()),
        End::Diverged(_) => {}
    }
    for (t, m) in &trace.panics {
        violations.push(format!("panic on t{}: {}", t, m));
    }
    let mut obs = String::new();
    if trace.end == End::Done {
        // quiescence: the controller drops whatever handles remain (own stack as default)
        let race_len = world::log_len();
        let r = std::panic::catch_unwind(std::panic::AssertUnwindSafe(|| {
            tracing_core::dispatch::with_default(&w.own, || {
                for slot in (0..4).rev() {
                    for owner in 0..w.pools.len() {
                        loop {
                            let h = w.pools[owner][slot].lock().unwrap().pop();
                            match h {
                                Some(h) => {
                                    mark(&w, "release.start", h.id().map_or(0, |i| i.into_u64()));
                                    drop(h)
                                }
                                None => break,
                            }
                        }
                    }
                }
            })
        }));
        if r.is_err() {
            violations.push("panic while dropping the remaining handles at quiescence".into());
        }
        let log = world::log_since(0);
        let marks = w.marks.lock().unwrap().clone();
        judge(&log, &marks, &w.own, &mut violations);
        for e in log[..race_len.min(log.len())].iter().filter(|e| e.kind == "close" && e.layer == 1) {
            obs.push_str(&format!("c{}@{};", e.id, e.tid));
        }
    }
    violations.sort();
    violations.dedup();
    // F20: a span that closed inside another close's guard (its CloseGuard was dropped while an
    // enclosing guard of a different close was active on the thread) is never removed from the
    // registry. Attributed exactly: the library notes the ids of such guards (observation hook).
    let notes = sched::take_notes();
    let mut known = vec![];
    if sc.f20_open {
        violations.retain(|m| {
            let id = m.strip_prefix("span ").and_then(|r| r.split_once(" still present in the registry")).and_then(|(n, _)| n.parse::<u64>().ok());
            match id {
                Some(id) if notes.iter().any(|(l, v)| *l == "registry.close_guard.closing_while_nested" && *v == id) => {
                    known.push("F20".to_string());
                    false
                }
                _ => true,
            }
        });
    }
    SResult { trace: Some(trace), violations, known, obs, conflicts: vec![] }
}

fn judge(log: &[LEv], marks: &[(usize, String, u64)], own: &Dispatch, v: &mut Vec<String>) {
    // spans created, in creation order, with their parents and markers
    let created: Vec<&LEv> = log.iter().filter(|e| e.kind == "new_span" && e.layer == 1).collect();
    for layer in [1u8, 2u8] {
        // a slab slot may be reused: segment the log per (id, occupancy) using new_span events
        for (ci, c) in created.iter().enumerate() {
            let start = log.iter().position(|e| std::ptr::eq(e, *c)).unwrap();
            let next_same_id = created[ci + 1..].iter().find(|n| n.id == c.id).map(|n| log.iter().position(|e| std::ptr::eq(e, *n)).unwrap()).unwrap_or(log.len());
            let closes: Vec<(usize, &LEv)> = log[start..next_same_id].iter().enumerate().filter(|(_, e)| e.kind == "close" && e.layer == layer && e.id == c.id).map(|(i, e)| (start + i, e)).collect();
            if closes.len() != 1 {
                v.push(format!("span {} ({}) was reported closed {} times to layer L{} (expected exactly once after all handles are dropped)", c.id, c.name, closes.len(), layer));
                continue;
            }
            let (cidx, ce) = closes[0];
            if !ce.readable {
                v.push(format!("span {} not readable inside L{}'s on_close", c.id, layer));
            }
            let created_marker = log[start..next_same_id].iter().find(|e| e.kind == "new_span" && e.layer == layer && e.id == c.id).and_then(|e| e.marker);
            if ce.readable && ce.marker != created_marker {
                v.push(format!("L{}'s on_close of span {} saw stored data {:?}, stored at creation {:?}", layer, c.id, ce.marker, created_marker));
            }
            // never earlier than the start of the last releasing operation on this span
            for (at, kind, id) in marks {
                if kind == "release.start" && *id == c.id && *at >= start && *at < next_same_id && *at > cidx {
                    v.push(format!("span {} was reported closed to L{} before a handle drop / exit that still referenced it had begun", c.id, layer));
                }
            }
            // children close before their parent
            for ch in created.iter().filter(|x| x.parent == Some(c.id)) {
                let chstart = log.iter().position(|e| std::ptr::eq(e, *ch)).unwrap();
                if chstart < start || chstart >= next_same_id {
                    continue;
                }
                let chclose = log[chstart..].iter().position(|e| e.kind == "close" && e.layer == layer && e.id == ch.id).map(|i| chstart + i);
                match chclose {
                    Some(x) if x < cidx => {}
                    _ => v.push(format!("parent span {} closed (L{}) before its child {}", c.id, layer, ch.id)),
                }
            }
        }
    }
    for e in log.iter().filter(|e| e.kind == "new_span") {
        if e.stale {
            v.push(format!("new span {} sees stored data of a previous occupant", e.id));
        }
    }
    // afterwards every span is gone
    for c in &created {
        if world::lookup(own, c.id).is_some() {
            v.push(format!("span {} still present in the registry after its last handle was dropped", c.id));
        }
    }
}

/// schedule of "D7 three generations, three droppers" that exhibits F20
const F20_WITNESS: [u8; 26] = [2, 2, 2, 2, 2, 2, 0, 0, 0, 0, 0, 0, 0, 0, 0, 0, 0, 1, 1, 1, 1, 1, 1, 1, 1, 1];

pub fn scenarios(tier: Tier) -> Vec<Scenario> {
    use SOp::*;
    let r = || "root".to_string();
    // setup runs on the controller (its pool keeps one handle per span unless it drops it)
    let mut v = vec![
        Scenario { name: "D1 drop||drop of the last two handles".into(), setup: vec![New(0, r()), Give(0, 0), Give(1, 0), Drop(0)], threads: vec![vec![Drop(0)], vec![Drop(0)]], f20_open: false },
        Scenario {
            name: "D2 child drop (cascade)||parent handle drop".into(),
            setup: vec![New(0, r()), New(1, "of0".into()), Give(0, 1), Give(1, 0), Drop(1), Drop(0)],
            threads: vec![vec![Drop(1)], vec![Drop(0)]],
            f20_open: false,
        },
        Scenario { name: "D3 enter,drop,exit||drop".into(), setup: vec![New(0, r()), Give(0, 0), Give(1, 0), Drop(0)], threads: vec![vec![Enter(0), Drop(0), Exit(0)], vec![Drop(0)]], f20_open: false },
        Scenario { name: "D4 clone,drop,drop||drop".into(), setup: vec![New(0, r()), Give(0, 0), Give(1, 0), Drop(0)], threads: vec![vec![Clone(0), Drop(0), Drop(0)], vec![Drop(0)]], f20_open: false },
        Scenario {
            name: "D5 contextual child under entered parent||parent handle drop".into(),
            setup: vec![New(0, r()), Give(0, 0), Give(1, 0), Drop(0)],
            threads: vec![vec![Enter(0), New(1, "ctx".into()), Drop(0), Exit(0), Drop(1)], vec![Drop(0)]],
            f20_open: false,
        },
        Scenario {
            name: "D6 Span::current capture||drop".into(),
            setup: vec![New(0, r()), Give(0, 0), Give(1, 0), Drop(0)],
            threads: vec![vec![Enter(0), Drop(0), Cur, Exit(0), Drop(0)], vec![Drop(0)]],
            f20_open: false,
        },
    ];
    if tier == Tier::Thorough {
        v.push(Scenario {
            name: "D7 three generations, three droppers".into(),
            setup: vec![New(0, r()), New(1, "of0".into()), New(2, "of1".into()), Give(0, 2), Give(1, 1), Give(2, 0), Drop(2), Drop(1), Drop(0)],
            threads: vec![vec![Drop(2)], vec![Drop(1)], vec![Drop(0)]],
            f20_open: false,
        });
        v.push(Scenario {
            name: "D8 same span entered on two threads".into(),
            setup: vec![New(0, r()), Give(0, 0), Give(1, 0), Drop(0)],
            threads: vec![vec![Enter(0), Drop(0), Exit(0)], vec![Enter(0), Drop(0), Exit(0)]],
            f20_open: false,
        });
    }
    v
}

pub fn replay(args: &Args, path: &str) -> i32 {
    let v: serde_json::Value = serde_json::from_str(&std::fs::read_to_string(path).expect("read replay")).expect("json");
    let mut job: SJob = serde_json::from_value(v["case"].clone()).expect("case");
    job.record_steps = true;
    let bytes = serde_json::to_vec(&job).unwrap();
    let a = mc::pool::run_isolated(run_schedule, &bytes, Duration::from_secs(30));
    let b = mc::pool::run_isolated(run_schedule, &bytes, Duration::from_secs(30));
    let (mc::pool::Outcome::Ok(a), mc::pool::Outcome::Ok(b)) = (a, b) else {
        println!("VIOLATION property={} replay={} :: process died", args.property, path);
        return 1;
    };
    let r1: SResult = serde_json::from_slice(&a).unwrap();
    let r2: SResult = serde_json::from_slice(&b).unwrap();
    if r1.obs != r2.obs || r1.violations != r2.violations {
        println!("MACHINERY-ERROR property={} replay is not deterministic", args.property);
        return 2;
    }
    if let Some(t) = &r1.trace {
        for (tid, l) in &t.step_log {
            println!("  t{} {}", tid, l);
        }
    }
    if r1.violations.is_empty() {
        println!("replay: no violation on this schedule");
        0
    } else {
        for x in &r1.violations {
            println!("VIOLATION property={} replay={} :: {}", args.property, path, x);
        }
        1
    }
}

pub fn run_all(args: &Args, rep: &mut Report) -> (u64, u64, u64) {
    let mut pool = Pool::new(mc::pool::default_workers(), run_schedule, true, Duration::from_secs(20));
    let bound = std::env::var("VERIF_BOUND").ok().and_then(|s| s.parse().ok()).unwrap_or(args.tier.pick(2, 3));
    let f20_open = rep.is_open("F20");
    let scs: Vec<Scenario> = scenarios(args.tier).into_iter().map(|mut s| {
        s.f20_open = f20_open;
        s
    }).collect();
    // the recorded witness of F20 (a schedule of D7 with 3 preemptions) is replayed in every tier, so
    // that the finding is reported while it is open whatever the bound of this run
    if f20_open {
        let d7 = scenarios(Tier::Thorough).into_iter().find(|s| s.name.starts_with("D7")).map(|mut s| {
            s.f20_open = true;
            s
        });
        if let Some(d7) = d7 {
            let job = SJob { scenario: serde_json::to_string(&d7).unwrap(), prefix: F20_WITNESS.to_vec(), record_steps: false };
            if let mc::pool::Outcome::Ok(b) = mc::pool::run_isolated(run_schedule, &serde_json::to_vec(&job).unwrap(), Duration::from_secs(30)) {
                if let Ok(r) = serde_json::from_slice::<SResult>(&b) {
                    for k in r.known {
                        rep.known_hit(&k);
                    }
                    for m in r.violations {
                        rep.violation(format!("[{} (witness schedule of F20)] {}", d7.name, m), serde_json::to_value(&job).unwrap());
                    }
                }
            }
        }
    }
    let mut tot = (0u64, 0u64, 0u64);
    let mut per = vec![];
    let mut capped = false;
    for sc in &scs {
        let mut st = Stats::default();
        let cfg = ExploreCfg { bound, deadline: Instant::now() + Duration::from_secs(args.tier.pick(5, 100)), max_schedules: u64::MAX, stop_on_violation: true };
        explore(&mut pool, &serde_json::to_string(sc).unwrap(), &cfg, &mut st);
        tot.0 += st.schedules;
        tot.1 += st.tree_nodes;
        tot.2 += st.steps;
        capped |= st.capped;
        per.push(json!({"scenario": sc.name, "schedules": st.schedules, "by_preemptions": st.by_cost, "distinct_outcomes": st.distinct_obs.len(), "capped": st.capped, "unexplored_prefixes": st.leftover}));
        for m in st.machinery {
            rep.machinery_error(format!("{}: {}", sc.name, m));
        }
        for (k, n) in &st.known {
            for _ in 0..*n {
                rep.known_hit(k);
            }
        }
        for (what, job) in st.violations.iter().take(2) {
            rep.violation(format!("[{}] {}", sc.name, what), serde_json::to_value(job).unwrap());
        }
        if let Some((job, labels)) = st.sample {
            rep.sample(json!({"scenario": sc.name, "schedule_choices": job.prefix, "decision_labels": labels}));
        }
    }
    rep.cov("schedules", tot.0);
    rep.cov("preemption_bound", bound as u64);
    rep.cov("schedule_bound_completed", !capped);
    rep.cov("scenarios", json!(per));
    tot
}
