//! Harness for the span-registry properties: C05 C06.
mod c05;
mod hreg;
mod sreg;
mod world;

fn main() {
    let args = mc::parse_args();
    let code = match args.property.as_str() {
        "C05" => c05::run(&args, "C05"),
        "C06" => c05::run(&args, "C06"),
        p => {
            eprintln!("h_reg: unknown property {}", p);
            2
        }
    };
    std::process::exit(code);
}
