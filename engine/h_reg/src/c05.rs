//! C05 (close exactly once, after last reference and last child) and C06 (current / parent / scope
//! mirror the per-thread enter/exit history): parent-side drivers.
use crate::hreg::{self, Cfg};
use crate::sreg;
use mc::hist::{bfs, HCfg, HJob, HResult, HStats};
use mc::pool::Pool;
use mc::{Args, Report};
use serde_json::json;
use std::time::{Duration, Instant};

fn run_h(rep: &mut Report, pool: &mut Pool, cfg: &Cfg, depth: usize, budget: Duration, max_tr: u64, dedup: bool) -> HStats {
    let mut st = HStats::default();
    let h = HCfg { max_depth: depth, deadline: Instant::now() + budget, max_transitions: max_tr, dedup, crash_is_violation: true, roots: vec![] };
    bfs(pool, &serde_json::to_string(cfg).unwrap(), &h, &mut st);
    for m in &st.machinery {
        rep.machinery_error(m.clone());
    }
    for (w, j) in st.violations.iter().take(3) {
        rep.violation(w.clone(), serde_json::to_value(j).unwrap());
    }
    for (k, n) in &st.known {
        for _ in 0..*n {
            rep.known_hit(k);
        }
    }
    for s in &st.samples {
        rep.sample(json!({"history": s.history}));
    }
    st
}

fn replay(args: &Args, path: &str) -> i32 {
    let v: serde_json::Value = serde_json::from_str(&std::fs::read_to_string(path).expect("read replay")).expect("json");
    if v["case"].get("history").is_none() {
        return sreg::replay(args, path);
    }
    let job: HJob = serde_json::from_value(v["case"].clone()).expect("case");
    let bytes = serde_json::to_vec(&job).unwrap();
    match mc::pool::run_isolated(hreg::run_history, &bytes, Duration::from_secs(30)) {
        mc::pool::Outcome::Ok(b) => {
            let r: HResult = serde_json::from_slice(&b).unwrap();
            println!("history: {:?}", job.history);
            if r.violations.is_empty() {
                println!("replay: no violation (known: {:?})", r.known);
                0
            } else {
                for x in r.violations {
                    println!("VIOLATION property={} replay={} :: {}", args.property, path, x);
                }
                1
            }
        }
        o => {
            println!("VIOLATION property={} replay={} :: child {:?}", args.property, path, o);
            1
        }
    }
}

pub fn run(args: &Args, mode: &str) -> i32 {
    if let Some(p) = &args.replay {
        return replay(args, p);
    }
    let mut rep = Report::new(args, "model_checking");
    // C06 does not re-report C05's findings: at their trigger steps it accepts either outcome and
    // does not extend the history (the count is in the evidence)
    // C06 shares C05's alphabet: C05's open findings cut its histories at their trigger steps too
    let c05_open = |id: &str| mc::report::load_known_findings("C05").iter().any(|k| k.id == id && k.status == "open");
    let f2_open = c05_open("F2");
    let f13_open = c05_open("F13");
    let c05 = mode == "C05";
    let mut pool = Pool::new(mc::pool::default_workers(), hreg::run_history, true, Duration::from_secs(20));
    let depth = std::env::var("VERIF_DEPTH").ok().and_then(|s| s.parse().ok()).unwrap_or(args.tier.pick(if c05 { 7 } else { 5 }, if c05 { 10 } else { 8 }));
    let cfg = Cfg {
        mode: mode.into(),
        threads: 2,
        slots: args.tier.pick(3, 4),
        max_handles: 2,
        max_stack: args.tier.pick(2, 3),
        foreign_defaults: false,
        reentry: c05,
        events: !c05,
        traces: !c05,
        f2_open,
        f13_open,
    };
    let st = run_h(&mut rep, &mut pool, &cfg, depth, Duration::from_secs(args.tier.pick(30, 10 * 60)), args.tier.pick(400_000, 20_000_000), true);
    let mut extra = vec![];
    let mut tot_states = st.states;
    let mut tot_tr = st.transitions;
    let mut cut = st.cut_by_known;
    if c05 {
        // spans exited / dropped while the thread's default is a different registry stack, or none
        let cfg2 = Cfg { foreign_defaults: true, slots: 2, threads: args.tier.pick(1, 2), max_stack: 2, ..cfg.clone() };
        let st2 = run_h(&mut rep, &mut pool, &cfg2, args.tier.pick(5, 7), Duration::from_secs(args.tier.pick(12, 5 * 60)), args.tier.pick(150_000, 8_000_000), true);
        tot_states += st2.states;
        tot_tr += st2.transitions;
        cut += st2.cut_by_known;
        extra.push(json!({"cfg": "foreign defaults", "states": st2.states, "transitions": st2.transitions, "depth_completed": st2.depth_completed, "capped": st2.capped, "cut_by_known_finding": st2.cut_by_known}));
    } else {
        // three spans deep on one thread with out-of-order exits
        let cfg2 = Cfg { threads: 1, slots: 4, max_stack: 4, events: true, traces: false, ..cfg.clone() };
        let st2 = run_h(&mut rep, &mut pool, &cfg2, args.tier.pick(7, 9), Duration::from_secs(args.tier.pick(15, 5 * 60)), args.tier.pick(200_000, 8_000_000), true);
        tot_states += st2.states;
        tot_tr += st2.transitions;
        extra.push(json!({"cfg": "one thread, four spans, deep stacks", "states": st2.states, "transitions": st2.transitions, "depth_completed": st2.depth_completed, "capped": st2.capped}));
    }
    // cross-check of the state merge without de-duplication at a smaller depth
    let nd = run_h(&mut rep, &mut pool, &cfg, args.tier.pick(3, 4), Duration::from_secs(args.tier.pick(10, 4 * 60)), args.tier.pick(100_000, 5_000_000), false);
    drop(pool);
    // ---- schedule part (C05 only) -------------------------------------------------------------
    let mut sched = (0u64, 0u64, 0u64);
    if c05 {
        sched = sreg::run_all(args, &mut rep);
    }
    rep.cov("states", tot_states + sched.1);
    rep.cov("transitions", tot_tr + sched.2);
    rep.cov("traces_validated_against_impl", tot_tr + nd.transitions + sched.0);
    rep.cov("history_states", tot_states);
    rep.cov("history_transitions", tot_tr);
    rep.cov("history_depth_completed", st.depth_completed as u64);
    rep.cov("history_depth_requested", depth as u64);
    rep.cov("history_capped", st.capped);
    rep.cov("cut_by_known_finding", cut);
    rep.cov("nodedup_histories", nd.transitions);
    rep.cov("nodedup_depth_completed", nd.depth_completed as u64);
    rep.cov("distinct_outcomes", st.distinct_obs.len() as u64);
    rep.cov("per_depth_new_states_and_transitions", json!(st.per_depth));
    rep.cov("other_configurations", json!(extra));
    rep.cov("configuration", serde_json::to_value(&cfg).unwrap());
    rep.cov("explanation", "history part: states = distinct canonical model states (span forest with handle counts, per-thread entered stacks, defaults, captured traces), transitions = histories executed on a real Registry stack (Registry + ErrorSubscriber + 2 recording layers) on real threads in a fresh process; the oracle runs after every step");
    rep.assume("sequentially interleaved threads in the history part; true interleavings of the reference-count operations are covered by the schedule part (C05) under SC at hook granularity");
    rep.assume("merging histories with equal model state is sound up to slab slot/id renaming; a no-dedup pass at smaller depth cross-checks it");
    if f2_open {
        rep.assume("known finding F2 open: histories are not extended beyond an exit / cascading close executed while the thread's default is not the span's own collector");
    }
    rep.finish()
}
