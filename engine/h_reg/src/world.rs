//! Recording layers over a real `Registry`, the span callsite pool, and worker threads.
use serde::{Deserialize, Serialize};
use std::sync::atomic::{AtomicU64, Ordering};
use std::sync::mpsc::{channel, Receiver, Sender};
use std::sync::Mutex;
use tracing::Span;
use tracing_core::dispatch::{self, DefaultGuard};
use tracing_core::{span, Dispatch, Event};
use tracing_error::{ErrorSubscriber, SpanTrace};
use tracing_subscriber::prelude::*;
use tracing_subscriber::registry::{LookupSpan, Registry};
use tracing_subscriber::subscribe::{Context, Subscribe};

#[derive(Clone, Debug, Serialize, Deserialize, PartialEq, Eq)]
pub struct LEv {
    /// stack (0 = own, 1 = other), layer (1 or 2)
    pub stack: u8,
    pub layer: u8,
    pub kind: String,
    pub id: u64,
    pub name: String,
    pub tid: i32,
    /// ids: meaning depends on kind (scope leaf->root for new_span/event; [parent] etc.)
    pub scope: Vec<u64>,
    pub from_root: Vec<u64>,
    pub parent: Option<u64>,
    pub current: Option<u64>,
    /// on_close: span data readable / marker serial found
    pub readable: bool,
    pub marker: Option<u64>,
    /// on_new_span: a marker of a previous occupant was visible
    pub stale: bool,
}

pub static LOG: Mutex<Vec<LEv>> = Mutex::new(Vec::new());
static SERIAL: AtomicU64 = AtomicU64::new(1);

thread_local! {
    pub static TID: std::cell::Cell<i32> = const { std::cell::Cell::new(-1) };
}

fn tid() -> i32 {
    match mc::sched::current_tid() {
        Some(t) => t as i32,
        None => TID.with(|t| t.get()),
    }
}

pub fn log_len() -> usize {
    LOG.lock().unwrap_or_else(|e| e.into_inner()).len()
}
pub fn log_since(n: usize) -> Vec<LEv> {
    LOG.lock().unwrap_or_else(|e| e.into_inner())[n..].to_vec()
}
fn push(e: LEv) {
    LOG.lock().unwrap_or_else(|e| e.into_inner()).push(e)
}

struct Marker<const L: u8>(u64);

pub struct RecLayer<const L: u8> {
    pub stack: u8,
}

fn base(stack: u8, layer: u8, kind: &str, id: u64, name: &str) -> LEv {
    LEv {
        stack,
        layer,
        kind: kind.to_string(),
        id,
        name: name.to_string(),
        tid: tid(),
        scope: vec![],
        from_root: vec![],
        parent: None,
        current: None,
        readable: false,
        marker: None,
        stale: false,
    }
}

impl<const L: u8, C> Subscribe<C> for RecLayer<L>
where
    C: tracing_core::Collect + for<'a> LookupSpan<'a>,
{
    fn on_new_span(&self, attrs: &span::Attributes<'_>, id: &span::Id, ctx: Context<'_, C>) {
        let mut e = base(self.stack, L, "new_span", id.into_u64(), attrs.metadata().name());
        if let Some(s) = ctx.span(id) {
            e.readable = s.name() == attrs.metadata().name();
            e.stale = s.extensions().get::<Marker<L>>().is_some();
            let serial = SERIAL.fetch_add(1, Ordering::SeqCst);
            s.extensions_mut().replace(Marker::<L>(serial));
            e.marker = Some(serial);
            e.parent = s.parent().map(|p| p.id().into_u64());
            e.scope = s.scope().map(|x| x.id().into_u64()).collect();
            e.from_root = s.scope().from_root().map(|x| x.id().into_u64()).collect();
        }
        e.current = ctx.lookup_current().map(|s| s.id().into_u64());
        push(e);
    }
    fn on_enter(&self, id: &span::Id, ctx: Context<'_, C>) {
        let mut e = base(self.stack, L, "enter", id.into_u64(), "");
        e.current = ctx.lookup_current().map(|s| s.id().into_u64());
        push(e);
    }
    fn on_exit(&self, id: &span::Id, ctx: Context<'_, C>) {
        let mut e = base(self.stack, L, "exit", id.into_u64(), "");
        e.current = ctx.lookup_current().map(|s| s.id().into_u64());
        push(e);
    }
    fn on_close(&self, id: span::Id, ctx: Context<'_, C>) {
        let mut e = base(self.stack, L, "close", id.into_u64(), "");
        if let Some(s) = ctx.span(&id) {
            e.readable = true;
            e.name = s.name().to_string();
            e.marker = s.extensions().get::<Marker<L>>().map(|m| m.0);
            e.parent = s.parent().map(|p| p.id().into_u64());
            e.scope = s.scope().map(|x| x.id().into_u64()).collect();
        }
        push(e);
    }
    fn on_event(&self, event: &Event<'_>, ctx: Context<'_, C>) {
        let mut e = base(self.stack, L, "event", 0, event.metadata().name());
        e.parent = ctx.event_span(event).map(|s| s.id().into_u64());
        if let Some(sc) = ctx.event_scope(event) {
            e.scope = sc.map(|x| x.id().into_u64()).collect();
        }
        if let Some(sc) = ctx.event_scope(event) {
            e.from_root = sc.from_root().map(|x| x.id().into_u64()).collect();
        }
        e.current = ctx.lookup_current().map(|s| s.id().into_u64());
        push(e);
    }
}

pub fn make_stack(stack: u8) -> Dispatch {
    Dispatch::new(
        Registry::default()
            .with(ErrorSubscriber::default())
            .with(RecLayer::<1> { stack })
            .with(RecLayer::<2> { stack }),
    )
}

/// registry lookups from outside callbacks
pub fn lookup(d: &Dispatch, id: u64) -> Option<(String, Option<u64>, Vec<u64>)> {
    let reg = d.downcast_ref::<Registry>()?;
    let s = reg.span(&span::Id::from_u64(id))?;
    Some((s.name().to_string(), s.parent().map(|p| p.id().into_u64()), s.scope().map(|x| x.id().into_u64()).collect()))
}

// ---- span / event callsites (real macros) ----------------------------------------------------------

pub const NAMES: [&str; 4] = ["s0", "s1", "s2", "s3"];

pub enum ParentKind {
    Ctx,
    Root,
    Of(span::Id),
}

pub fn make_span(slot: usize, parent: ParentKind) -> Span {
    macro_rules! mk {
        ($name:literal) => {
            match parent {
                ParentKind::Ctx => tracing::span!(tracing::Level::INFO, $name),
                ParentKind::Root => tracing::span!(parent: None, tracing::Level::INFO, $name),
                ParentKind::Of(id) => tracing::span!(parent: &id, tracing::Level::INFO, $name),
            }
        };
    }
    match slot {
        0 => mk!("s0"),
        1 => mk!("s1"),
        2 => mk!("s2"),
        _ => mk!("s3"),
    }
}

pub fn make_event(parent: ParentKind) {
    match parent {
        ParentKind::Ctx => tracing::event!(name: "ev_ctx", tracing::Level::INFO, "e"),
        ParentKind::Root => tracing::event!(name: "ev_root", parent: None, tracing::Level::INFO, "e"),
        ParentKind::Of(id) => tracing::event!(name: "ev_of", parent: &id, tracing::Level::INFO, "e"),
    }
}

// ---- worker threads ---------------------------------------------------------------------------------

pub enum Cmd {
    SetDef(Option<Dispatch>),
    ClearDef,
    New(usize, ParentKind),
    Drop(Span),
    DropUnwind(Span),
    DropTrace(SpanTrace),
    Enter(Dispatch, span::Id),
    Exit(Dispatch, span::Id),
    Current,
    Trace,
    Event(ParentKind),
    /// non-perturbing probe: the registry's notion of the current span on this thread
    Probe(Dispatch),
    Quit,
}

pub enum Reply {
    Done,
    Span(Span),
    Trace(SpanTrace),
    Cur(Option<u64>),
    Panicked(String),
}

pub struct Worker {
    pub tx: Sender<Cmd>,
    pub rx: Receiver<Reply>,
}

impl Worker {
    pub fn call(&self, c: Cmd) -> Reply {
        self.tx.send(c).unwrap();
        self.rx.recv().expect("worker thread died")
    }
}

pub fn spawn_worker(t: i32) -> Worker {
    let (ctx, crx) = channel::<Cmd>();
    let (rtx, rrx) = channel::<Reply>();
    std::thread::spawn(move || {
        TID.with(|x| x.set(t));
        let mut guard: Option<DefaultGuard> = None;
        loop {
            let cmd = match crx.recv() {
                Ok(c) => c,
                Err(_) => return,
            };
            if let Cmd::Quit = cmd {
                return;
            }
            let r = std::panic::catch_unwind(std::panic::AssertUnwindSafe(|| match cmd {
                Cmd::SetDef(d) => {
                    drop(guard.take());
                    guard = Some(dispatch::set_default(&d.unwrap_or_else(Dispatch::none)));
                    Reply::Done
                }
                Cmd::ClearDef => {
                    drop(guard.take());
                    Reply::Done
                }
                Cmd::New(slot, pk) => Reply::Span(make_span(slot, pk)),
                Cmd::Drop(s) => {
                    drop(s);
                    Reply::Done
                }
                Cmd::DropUnwind(s) => {
                    // the handle is owned by a frame that unwinds (no panic hook output)
                    let _ = std::panic::catch_unwind(std::panic::AssertUnwindSafe(move || {
                        let _held = s;
                        std::panic::resume_unwind(Box::new("scripted panic inside the span"));
                    }));
                    Reply::Done
                }
                Cmd::DropTrace(s) => {
                    drop(s);
                    Reply::Done
                }
                Cmd::Enter(d, id) => {
                    d.enter(&id);
                    Reply::Done
                }
                Cmd::Exit(d, id) => {
                    d.exit(&id);
                    Reply::Done
                }
                Cmd::Current => Reply::Span(Span::current()),
                Cmd::Trace => Reply::Trace(SpanTrace::capture()),
                Cmd::Event(pk) => {
                    make_event(pk);
                    Reply::Done
                }
                Cmd::Probe(d) => Reply::Cur(d.current_span().id().map(|i| i.into_u64())),
                Cmd::Quit => Reply::Done,
            }));
            let reply = match r {
                Ok(r) => r,
                Err(e) => Reply::Panicked(
                    e.downcast_ref::<String>().cloned().or_else(|| e.downcast_ref::<&str>().map(|s| s.to_string())).unwrap_or_default(),
                ),
            };
            if rtx.send(reply).is_err() {
                return;
            }
        }
    });
    Worker { tx: ctx, rx: rrx }
}
