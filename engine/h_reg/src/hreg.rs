//! Engine H executor for C05 / C06: histories over a forest of spans on a real Registry stack,
//! executed on real threads (sequentially interleaved) in a fresh process, judged step by step
//! against a reference-count / per-thread-stack / forest model.
use crate::world::{self, Cmd, LEv, ParentKind, Reply, Worker, NAMES};
use mc::hist::{HJob, HResult};
use serde::{Deserialize, Serialize};
use tracing::Span;
use tracing_core::{span, Dispatch};
use tracing_error::SpanTrace;

#[derive(Clone, Debug, Serialize, Deserialize)]
pub struct Cfg {
    /// "C05" | "C06"
    pub mode: String,
    pub threads: usize,
    pub slots: usize,
    pub max_handles: usize,
    pub max_stack: usize,
    pub foreign_defaults: bool,
    pub reentry: bool,
    pub events: bool,
    pub traces: bool,
    pub f2_open: bool,
    pub f13_open: bool,
}

#[derive(Clone, Debug)]
struct MSpan {
    slot: usize,
    id: u64,
    handles: usize,
    parent: Option<usize>,
    open_children: usize,
    closed: bool,
    markers: [Option<u64>; 2],
    /// handles held inside captured SpanTraces
    trace_refs: usize,
}

#[derive(Clone, Debug)]
struct Model {
    spans: Vec<MSpan>,
    /// slot -> index of the span currently occupying it (possibly closed)
    slot: Vec<Option<usize>>,
    stacks: Vec<Vec<usize>>,
    /// 0 own, 1 other, 2 none
    defs: Vec<u8>,
    /// (span index, expected names leaf->root)
    traces: Vec<(Option<usize>, Vec<String>)>,
}

impl Model {
    fn live(&self, i: usize) -> bool {
        !self.spans[i].closed
    }
    fn refs(&self, i: usize) -> usize {
        let s = &self.spans[i];
        s.handles + s.trace_refs + s.open_children + self.stacks.iter().filter(|st| st.contains(&i)).count()
    }
    fn current(&self, t: usize) -> Option<usize> {
        // the most recently entered span not yet exited; a re-entered span counts at its first position
        let st = &self.stacks[t];
        let mut i = st.len();
        while i > 0 {
            i -= 1;
            if !st[..i].contains(&st[i]) {
                return Some(st[i]);
            }
        }
        None
    }
    fn chain(&self, i: usize) -> Vec<usize> {
        let mut v = vec![i];
        let mut c = i;
        while let Some(p) = self.spans[c].parent {
            v.push(p);
            c = p;
        }
        v
    }
    /// release one reference of span i; returns the cascade of closes (child before parent)
    fn maybe_close(&mut self, i: usize, out: &mut Vec<usize>) {
        if !self.spans[i].closed && self.refs(i) == 0 {
            self.spans[i].closed = true;
            out.push(i);
            if let Some(p) = self.spans[i].parent {
                self.spans[p].open_children -= 1;
                self.maybe_close(p, out);
            }
        }
    }
    fn key(&self) -> String {
        // canonical: ids are implementation values and are left out; structure only
        let spans: Vec<String> = self
            .spans
            .iter()
            .enumerate()
            .filter(|(i, s)| !s.closed || self.slot[s.slot] == Some(*i))
            .map(|(_, s)| format!("{}:{}+{}:{:?}:{}:{}", s.slot, s.handles, s.trace_refs, s.parent.map(|p| self.spans[p].slot), s.open_children, s.closed))
            .collect();
        let stacks: Vec<Vec<usize>> = self.stacks.iter().map(|st| st.iter().map(|i| self.spans[*i].slot).collect()).collect();
        let traces: Vec<Option<usize>> = self.traces.iter().map(|t| t.0.map(|i| self.spans[i].slot)).collect();
        format!("{:?}|{:?}|{:?}|{:?}|n{}", spans, stacks, self.defs, traces, self.spans.len().min(6))
    }
}

fn enabled_ops(cfg: &Cfg, m: &Model) -> Vec<String> {
    let mut v = vec![];
    let live_slots: Vec<usize> = (0..cfg.slots).filter(|s| m.slot[*s].map_or(false, |i| m.live(i))).collect();
    for t in 0..cfg.threads {
        for &s in &live_slots {
            let i = m.slot[s].unwrap();
            if m.stacks[t].contains(&i) {
                v.push(format!("exit:{}:{}", t, s));
            }
            if m.spans[i].handles > 0 && m.stacks[t].len() < cfg.max_stack && (cfg.reentry || !m.stacks[t].contains(&i)) {
                v.push(format!("enter:{}:{}", t, s));
            }
        }
    }
    for t in 0..cfg.threads {
        for &s in &live_slots {
            if m.spans[m.slot[s].unwrap()].handles > 0 {
                v.push(format!("drop:{}:{}", t, s));
                // the last handle dropped by an unwinding panic of the code that held it
                if t == 0 && m.spans[m.slot[s].unwrap()].handles == 1 {
                    v.push(format!("dropunwind:{}:{}", t, s));
                }
            }
        }
    }
    for &s in &live_slots {
        let h = m.spans[m.slot[s].unwrap()].handles;
        if h > 0 && h < cfg.max_handles {
            v.push(format!("clone:{}", s));
        }
    }
    if let Some(free) = (0..cfg.slots).find(|s| m.slot[*s].map_or(true, |i| !m.live(i))) {
        for t in 0..cfg.threads {
            if m.defs[t] != 0 {
                continue;
            }
            v.push(format!("new:{}:{}:ctx", t, free));
            v.push(format!("new:{}:{}:root", t, free));
            for &p in &live_slots {
                if m.spans[m.slot[p].unwrap()].handles > 0 {
                    v.push(format!("new:{}:{}:of{}", t, free, p));
                }
            }
        }
    }
    for t in 0..cfg.threads {
        if m.defs[t] == 0 {
            v.push(format!("cur:{}", t));
            if cfg.events {
                v.push(format!("event:{}:ctx", t));
                v.push(format!("event:{}:root", t));
                for &p in &live_slots {
                    if m.spans[m.slot[p].unwrap()].handles > 0 {
                        v.push(format!("event:{}:of{}", t, p));
                    }
                }
            }
            if cfg.traces && m.traces.len() < 2 {
                v.push(format!("trace:{}", t));
            }
        }
    }
    if cfg.traces {
        for i in 0..m.traces.len() {
            v.push(format!("untrace:0:{}", i));
        }
    }
    if cfg.foreign_defaults {
        for t in 0..cfg.threads {
            for d in 0..3u8 {
                if d != m.defs[t] {
                    v.push(format!("def:{}:{}", t, ["own", "other", "none"][d as usize]));
                }
            }
        }
    }
    v
}

pub fn run_history(job: &[u8]) -> Vec<u8> {
    let job: HJob = serde_json::from_slice(job).unwrap();
    let cfg: Cfg = serde_json::from_str(&job.cfg).unwrap();
    serde_json::to_vec(&run(&cfg, &job.history)).unwrap()
}

struct Exec {
    own: Dispatch,
    other: Dispatch,
    workers: Vec<Worker>,
    handles: Vec<Vec<Span>>,
    traces: Vec<SpanTrace>,
}

fn pk(m: &Model, kind: &str) -> (ParentKind, Option<Option<usize>>) {
    // returns the ParentKind and (for explicit kinds) the expected parent index
    if kind == "ctx" {
        (ParentKind::Ctx, None)
    } else if kind == "root" {
        (ParentKind::Root, Some(None))
    } else {
        let p: usize = kind[2..].parse().unwrap();
        let i = m.slot[p].unwrap();
        (ParentKind::Of(span::Id::from_u64(m.spans[i].id)), Some(Some(i)))
    }
}

fn run(cfg: &Cfg, history: &[String]) -> HResult {
    let c05 = cfg.mode == "C05";
    let mut res = HResult::default();
    let mut ex = Exec {
        own: world::make_stack(0),
        other: world::make_stack(1),
        workers: (0..cfg.threads).map(|t| world::spawn_worker(t as i32)).collect(),
        handles: (0..cfg.slots).map(|_| vec![]).collect(),
        traces: vec![],
    };
    // the other registry holds one live span whose id collides with the own registry's first span
    let other_span = tracing_core::dispatch::with_default(&ex.other, || world::make_span(3, ParentKind::Root));
    let other_id = other_span.id().map(|i| i.into_u64());
    for w in &ex.workers {
        // every thread also creates a span of its own in the other registry (span ids carry the
        // creating thread, so this one collides with the first span the thread creates in the
        // own registry) and keeps it entered there for the whole history: what a thread has
        // entered in one registry is no part of another registry's context
        w.call(Cmd::SetDef(Some(ex.other.clone())));
        if let Reply::Span(sp) = w.call(Cmd::New(3, ParentKind::Root)) {
            if let Some(id) = sp.id() {
                w.call(Cmd::Enter(ex.other.clone(), id));
            }
            std::mem::forget(sp);
        }
        w.call(Cmd::SetDef(Some(ex.own.clone())));
    }
    let mut m = Model {
        spans: vec![],
        slot: vec![None; cfg.slots],
        stacks: vec![vec![]; cfg.threads],
        defs: vec![0; cfg.threads],
        traces: vec![],
    };
    let setup_len = world::log_len();
    let mut f2_hit = false;
    let mut f13_hit = false;
    let mut cut = false;
    for (step, op) in history.iter().enumerate() {
        let p: Vec<&str> = op.split(':').collect();
        let n0 = world::log_len();
        let mut expected_closes: Vec<usize> = vec![];
        let mut trigger = false; // F2 trigger step
        let mut trigger13 = false; // F13 trigger step
        let mut panicked: Option<String> = None;
        let mut created: Option<usize> = None;
        let mut expect_parent: Option<Option<usize>> = None;
        let mut event_expect: Option<Option<usize>> = None;
        let mut acting_thread: Option<usize> = None;
        let mut note_panic = |r: Reply| -> Option<Reply> {
            if let Reply::Panicked(msg) = r {
                panicked = Some(msg);
                None
            } else {
                Some(r)
            }
        };
        match p[0] {
            "def" => {
                let t: usize = p[1].parse().unwrap();
                let d = match p[2] {
                    "own" => 0,
                    "other" => 1,
                    _ => 2,
                };
                let disp = match d {
                    0 => Some(ex.own.clone()),
                    1 => Some(ex.other.clone()),
                    _ => None,
                };
                note_panic(ex.workers[t].call(Cmd::SetDef(disp)));
                m.defs[t] = d;
            }
            "new" => {
                let (t, slot): (usize, usize) = (p[1].parse().unwrap(), p[2].parse().unwrap());
                acting_thread = Some(t);
                let (kind, exp) = pk(&m, p[3]);
                let parent = match exp {
                    None => m.current(t),
                    Some(x) => x,
                };
                expect_parent = Some(parent);
                if let Some(Reply::Span(s)) = note_panic(ex.workers[t].call(Cmd::New(slot, kind))) {
                    match s.id() {
                        Some(id) => {
                            if let Some(pi) = parent {
                                m.spans[pi].open_children += 1;
                            }
                            m.spans.push(MSpan { slot, id: id.into_u64(), handles: 1, parent, open_children: 0, closed: false, markers: [None, None], trace_refs: 0 });
                            m.slot[slot] = Some(m.spans.len() - 1);
                            created = Some(m.spans.len() - 1);
                            ex.handles[slot] = vec![s];
                        }
                        None => res.violations.push(format!("step {} ({}): span!() under the registry's own dispatch returned a disabled span", step, op)),
                    }
                }
            }
            "clone" => {
                let slot: usize = p[1].parse().unwrap();
                let i = m.slot[slot].unwrap();
                let c = ex.handles[slot][0].clone();
                ex.handles[slot].push(c);
                m.spans[i].handles += 1;
            }
            "drop" | "dropunwind" => {
                let (t, slot): (usize, usize) = (p[1].parse().unwrap(), p[2].parse().unwrap());
                acting_thread = Some(t);
                let i = m.slot[slot].unwrap();
                let h = ex.handles[slot].pop().unwrap();
                m.spans[i].handles -= 1;
                m.maybe_close(i, &mut expected_closes);
                // F2(b): a close cascading to a parent while this thread's default is not the own stack
                if m.defs[t] != 0 && expected_closes.iter().any(|c| m.spans[*c].parent.is_some()) {
                    trigger = true;
                }
                note_panic(ex.workers[t].call(if p[0] == "drop" { Cmd::Drop(h) } else { Cmd::DropUnwind(h) }));
            }
            "enter" => {
                let (t, slot): (usize, usize) = (p[1].parse().unwrap(), p[2].parse().unwrap());
                acting_thread = Some(t);
                let i = m.slot[slot].unwrap();
                m.stacks[t].push(i);
                note_panic(ex.workers[t].call(Cmd::Enter(ex.own.clone(), span::Id::from_u64(m.spans[i].id))));
            }
            "exit" => {
                let (t, slot): (usize, usize) = (p[1].parse().unwrap(), p[2].parse().unwrap());
                acting_thread = Some(t);
                let i = m.slot[slot].unwrap();
                let pos = m.stacks[t].iter().rposition(|x| *x == i).unwrap();
                m.stacks[t].remove(pos);
                let released = !m.stacks[t].contains(&i);
                if released {
                    m.maybe_close(i, &mut expected_closes);
                    if m.defs[t] != 0 {
                        trigger = true; // F2(a)
                    }
                    // F13: a close initiated by `exit` runs inside exit's get_default closure; the
                    // parent release in `Clear for DataInner` then gets Dispatch::none()
                    if expected_closes.first().map_or(false, |c| m.spans[*c].parent.is_some()) {
                        trigger13 = true;
                    }
                }
                note_panic(ex.workers[t].call(Cmd::Exit(ex.own.clone(), span::Id::from_u64(m.spans[i].id))));
            }
            "cur" => {
                let t: usize = p[1].parse().unwrap();
                acting_thread = Some(t);
                let want = m.current(t);
                if let Some(Reply::Span(s)) = note_panic(ex.workers[t].call(Cmd::Current)) {
                    let got = s.id().map(|i| i.into_u64());
                    if got != want.map(|i| m.spans[i].id) {
                        res.violations.push(format!(
                            "step {} ({}): Span::current() on t{} is {:?}, expected {:?}",
                            step,
                            op,
                            t,
                            got,
                            want.map(|i| (m.spans[i].id, NAMES[m.spans[i].slot]))
                        ));
                    }
                    match want {
                        Some(i) if got.is_some() => {
                            let slot = m.spans[i].slot;
                            if m.slot[slot] == Some(i) && m.spans[i].handles < cfg.max_handles + 1 {
                                m.spans[i].handles += 1;
                                ex.handles[slot].push(s);
                            } else {
                                drop(s); // balanced clone+drop on the controller thread
                            }
                        }
                        _ => drop(s),
                    }
                }
            }
            "trace" => {
                let t: usize = p[1].parse().unwrap();
                acting_thread = Some(t);
                let want = m.current(t);
                if let Some(Reply::Trace(tr)) = note_panic(ex.workers[t].call(Cmd::Trace)) {
                    let names: Vec<String> = want.map(|i| m.chain(i).iter().map(|x| NAMES[m.spans[*x].slot].to_string()).collect()).unwrap_or_default();
                    if let Some(i) = want {
                        m.spans[i].trace_refs += 1; // the trace holds a handle
                    }
                    m.traces.push((want, names));
                    ex.traces.push(tr);
                }
            }
            "untrace" => {
                let i: usize = p[2].parse().unwrap();
                let tr = ex.traces.remove(i);
                let (sp, _) = m.traces.remove(i);
                if let Some(si) = sp {
                    m.spans[si].trace_refs -= 1;
                    m.maybe_close(si, &mut expected_closes);
                }
                acting_thread = Some(0);
                note_panic(ex.workers[0].call(Cmd::DropTrace(tr)));
            }
            "event" => {
                let t: usize = p[1].parse().unwrap();
                acting_thread = Some(t);
                let (kind, exp) = pk(&m, p[2]);
                event_expect = Some(match exp {
                    None => m.current(t),
                    Some(x) => x,
                });
                note_panic(ex.workers[t].call(Cmd::Event(kind)));
            }
            _ => panic!("bad op {}", op),
        }
        let log = world::log_since(n0);
        let fail = |res: &mut HResult, msg: String| res.violations.push(format!("step {} ({}): {}", step, op, msg));

        // ---- judgement -------------------------------------------------------------------------
        let closes_of = |layer: u8| -> Vec<u64> { log.iter().filter(|e| e.stack == 0 && e.layer == layer && e.kind == "close").map(|e| e.id).collect() };
        let want_closes: Vec<u64> = expected_closes.iter().map(|i| m.spans[*i].id).collect();
        let other_touched = log.iter().any(|e| e.stack == 1);
        let deviates = panicked.is_some() || closes_of(1) != want_closes || closes_of(2) != want_closes || other_touched;
        // known-finding attribution at trigger steps (DESIGN §2.6): a trigger step accepts the
        // correct outcome or exactly the listed failure, and the history is not extended beyond it
        let mut skip_judgement = false;
        if trigger && cfg.f2_open {
            if deviates {
                f2_hit = true;
            }
            cut = true;
            skip_judgement = true;
        } else if trigger13 && cfg.f13_open {
            let only_first: Vec<u64> = want_closes.iter().take(1).cloned().collect();
            if !deviates {
                cut = true;
                skip_judgement = true;
            } else if panicked.is_none() && !other_touched && closes_of(1) == only_first && closes_of(2) == only_first {
                f13_hit = true;
                cut = true;
                skip_judgement = true;
            }
        }
        if !skip_judgement {
            if let Some(msg) = &panicked {
                fail(&mut res, format!("panic: {}", msg));
            }
            if other_touched {
                fail(&mut res, "a different registry's layers were notified".into());
            }
            if c05 || trigger {
                for l in [1u8, 2u8] {
                    let got = closes_of(l);
                    if got != want_closes {
                        fail(
                            &mut res,
                            format!("layer L{} saw close notifications {:?}, expected {:?} (exactly once each, children before parents)", l, got, want_closes),
                        );
                    }
                }
            }
        }
        if c05 {
            for e in log.iter().filter(|e| e.stack == 0) {
                if e.kind == "close" {
                    if !e.readable {
                        fail(&mut res, format!("span {} not readable inside L{}'s on_close", e.id, e.layer));
                    }
                    // the data seen while closing is the data stored at creation
                    if let Some(i) = expected_closes.iter().find(|i| m.spans[**i].id == e.id) {
                        let want = m.spans[*i].markers[(e.layer - 1) as usize];
                        if e.readable && e.marker != want {
                            fail(&mut res, format!("L{}'s on_close of span {} saw stored data {:?}, stored at creation {:?}", e.layer, e.id, e.marker, want));
                        }
                    }
                }
                if e.kind == "new_span" {
                    if e.stale {
                        fail(&mut res, format!("new span {} ({}) sees stored data of a previous occupant of its slot", e.id, e.name));
                    }
                    if !e.readable {
                        fail(&mut res, format!("new span {} not readable / wrong metadata inside on_new_span", e.id));
                    }
                }
            }
        }
        if let Some(i) = created {
            for e in log.iter().filter(|e| e.stack == 0 && e.kind == "new_span") {
                m.spans[i].markers[(e.layer - 1) as usize] = e.marker;
            }
        }
        if !c05 && !cut {
            // ---- C06: parent / scope / current -------------------------------------------------
            let ids = |v: &[usize]| -> Vec<u64> { v.iter().map(|i| m.spans[*i].id).collect() };
            if let Some(i) = created {
                let chain = ids(&m.chain(i));
                let mut rev = chain.clone();
                rev.reverse();
                let want_parent = expect_parent.unwrap().map(|p| m.spans[p].id);
                let cur = acting_thread.and_then(|t| m.current(t)).map(|c| m.spans[c].id);
                let seen: Vec<&LEv> = log.iter().filter(|e| e.stack == 0 && e.kind == "new_span").collect();
                if seen.len() != 2 {
                    fail(&mut res, format!("{} on_new_span notifications, expected one per layer", seen.len()));
                }
                for e in seen {
                    if e.parent != want_parent {
                        fail(&mut res, format!("L{}: new span {} has parent {:?}, expected {:?}", e.layer, e.id, e.parent, want_parent));
                    }
                    if e.scope != chain || e.from_root != rev {
                        fail(&mut res, format!("L{}: scope of new span {} is {:?} / from_root {:?}, expected {:?}", e.layer, e.id, e.scope, e.from_root, chain));
                    }
                    if e.current != cur {
                        fail(&mut res, format!("L{}: lookup_current() inside on_new_span is {:?}, expected {:?}", e.layer, e.current, cur));
                    }
                }
            }
            if let Some(exp) = event_expect {
                let chain = exp.map(|i| ids(&m.chain(i))).unwrap_or_default();
                let mut rev = chain.clone();
                rev.reverse();
                let cur = acting_thread.and_then(|t| m.current(t)).map(|c| m.spans[c].id);
                let seen: Vec<&LEv> = log.iter().filter(|e| e.stack == 0 && e.kind == "event").collect();
                if seen.len() != 2 {
                    fail(&mut res, format!("{} on_event notifications, expected one per layer", seen.len()));
                }
                for e in seen {
                    if e.parent != exp.map(|i| m.spans[i].id) || e.scope != chain || e.from_root != rev {
                        fail(
                            &mut res,
                            format!("L{}: event_span {:?} scope {:?} from_root {:?}, expected span {:?} chain {:?}", e.layer, e.parent, e.scope, e.from_root, exp.map(|i| m.spans[i].id), chain),
                        );
                    }
                    if e.current != cur {
                        fail(&mut res, format!("L{}: lookup_current() inside on_event is {:?}, expected {:?}", e.layer, e.current, cur));
                    }
                }
            }
            if p[0] == "enter" || p[0] == "exit" {
                let t = acting_thread.unwrap();
                let cur = m.current(t).map(|c| m.spans[c].id);
                for e in log.iter().filter(|e| e.stack == 0 && (e.kind == "enter" || e.kind == "exit")) {
                    if e.current != cur {
                        fail(&mut res, format!("L{}: lookup_current() inside on_{} is {:?}, expected {:?}", e.layer, e.kind, e.current, cur));
                    }
                }
            }
        }
        if !cut && res.violations.is_empty() {
            // ---- state probes after the step (both checks) -------------------------------------
            // every thread's current span, independent of other threads
            for t in 0..cfg.threads {
                if let Reply::Cur(got) = ex.workers[t].call(Cmd::Probe(ex.own.clone())) {
                    let want = m.current(t).map(|c| m.spans[c].id);
                    if !c05 && got != want {
                        fail(&mut res, format!("registry's current span on t{} is {:?}, expected {:?}", t, got, want));
                    }
                }
            }
            // live spans are present with their data, closed ones are gone, live ids are distinct
            let mut live_ids = vec![];
            for i in 0..m.spans.len() {
                let s = &m.spans[i];
                if s.closed {
                    continue;
                }
                live_ids.push(s.id);
                match world::lookup(&ex.own, s.id) {
                    None => fail(&mut res, format!("live span {} ({}) is gone from the registry (refs: {} handles, {} children, entered {:?})", s.id, NAMES[s.slot], s.handles, s.open_children, m.stacks)),
                    Some((name, parent, scope)) => {
                        let chain: Vec<u64> = m.chain(i).iter().map(|x| m.spans[*x].id).collect();
                        if name != NAMES[s.slot] || parent != s.parent.map(|p| m.spans[p].id) || scope != chain {
                            fail(&mut res, format!("span {}: registry says name {} parent {:?} scope {:?}; expected {} {:?} {:?}", s.id, name, parent, scope, NAMES[s.slot], s.parent.map(|p| m.spans[p].id), chain));
                        }
                    }
                }
            }
            let mut d = live_ids.clone();
            d.sort();
            d.dedup();
            if d.len() != live_ids.len() {
                fail(&mut res, format!("two live spans share an id: {:?}", live_ids));
            }
            for s in m.spans.iter().filter(|s| s.closed) {
                if !live_ids.contains(&s.id) && world::lookup(&ex.own, s.id).is_some() {
                    fail(&mut res, format!("closed span {} ({}) is still present in the registry", s.id, NAMES[s.slot]));
                }
            }
            // captured traces keep yielding their chain
            if !c05 {
                for (k, tr) in ex.traces.iter().enumerate() {
                    let mut names = vec![];
                    tr.with_spans(|meta, _| {
                        names.push(meta.name().to_string());
                        true
                    });
                    if names != m.traces[k].1 {
                        fail(&mut res, format!("SpanTrace #{} yields {:?}, captured chain was {:?}", k, names, m.traces[k].1));
                    }
                }
            }
            // the other registry's span is untouched
            if let Some(oid) = other_id {
                if world::lookup(&ex.other, oid).is_none() {
                    fail(&mut res, "a span of a different registry disappeared".into());
                }
            }
        }
        res.obs = format!("{}:{:?}", p[0], want_closes.len());
        if !res.violations.is_empty() || cut {
            break;
        }
    }
    let _ = setup_len;
    if f2_hit && c05 {
        res.known.push("F2".into());
    }
    if f13_hit && c05 {
        res.known.push("F13".into());
    }
    res.cut = cut;
    res.key = m.key();
    res.next = enabled_ops(cfg, &m);
    for w in &ex.workers {
        let _ = w.tx.send(Cmd::Quit);
    }
    // leak everything: the process exits now
    std::mem::forget(ex);
    std::mem::forget(other_span);
    res
}
