//! C04 — racing callsite registration and collector turnover converge; none is stranded.
//! Engine S: every interleaving (up to a preemption bound) of 2-3 real threads running small
//! scenarios on the real code, one fresh process per schedule.
use crate::rec::{self, cs_by_name, Ev, FiltSpec, RecCollector, CALLSITES, FLAGS};
use mc::explore::{explore, ExploreCfg, SJob, SResult, Stats};
use mc::pool::Pool;
use mc::sched::{self, End, RunCfg};
use mc::{Args, Report, Tier};
use serde::{Deserialize, Serialize};
use serde_json::json;
use std::collections::BTreeSet;
use std::sync::{Arc, Mutex};
use std::time::{Duration, Instant};
use tracing_core::{Dispatch, LevelFilter};

#[derive(Clone, Debug, Serialize, Deserialize, PartialEq)]
pub enum Op {
    /// slot := Dispatch::new(recording collector with this filter); collector id = slot
    New(u8, FiltSpec),
    /// drop the Dispatch held in the slot
    Drop(u8),
    /// push set_default(slot) on this thread's guard stack
    Enter(u8),
    /// pop the innermost guard
    Leave,
    /// set_global_default(slot.clone())
    Global(u8),
    /// emit through callsite
    Hit(String),
    Rebuild,
}

#[derive(Clone, Debug, Serialize, Deserialize)]
pub struct Scenario {
    pub name: String,
    /// executed by the controller before the threads start (unscheduled)
    pub setup: Vec<Op>,
    pub threads: Vec<Vec<Op>>,
}

const NSLOTS: usize = 6;

struct World {
    slots: Vec<Mutex<Option<Dispatch>>>,
    specs: Mutex<Vec<Option<FiltSpec>>>,
}

fn exec(w: &World, guards: &mut Vec<tracing_core::dispatch::DefaultGuard>, op: &Op) {
    match op {
        Op::New(s, spec) => {
            w.specs.lock().unwrap()[*s as usize] = Some(*spec);
            rec::mark("new.start", &s.to_string());
            let d = Dispatch::new(RecCollector::new(*s, *spec, &FLAGS[*s as usize]));
            *w.slots[*s as usize].lock().unwrap() = Some(d);
            rec::mark("new.done", &s.to_string());
        }
        Op::Drop(s) => {
            sched::point("harness.drop_dispatch");
            let d = w.slots[*s as usize].lock().unwrap().take();
            rec::mark("drop.start", &s.to_string());
            drop(d);
            rec::mark("drop.done", &s.to_string());
        }
        Op::Enter(s) => {
            let d = w.slots[*s as usize].lock().unwrap().clone().expect("Enter on empty slot");
            guards.push(tracing_core::dispatch::set_default(&d));
            rec::mark("enter.done", &s.to_string());
        }
        Op::Leave => {
            guards.pop();
            rec::mark("leave.done", "");
        }
        Op::Global(s) => {
            let d = w.slots[*s as usize].lock().unwrap().clone().expect("Global on empty slot");
            rec::mark("global.start", &s.to_string());
            let r = tracing_core::dispatch::set_global_default(d);
            rec::mark(if r.is_ok() { "global.ok" } else { "global.err" }, &s.to_string());
        }
        Op::Hit(c) => {
            let cs = cs_by_name(c);
            rec::mark("hit.start", c);
            (cs.emit)();
            rec::mark("hit.end", c);
        }
        Op::Rebuild => {
            rec::mark("rebuild.start", "");
            tracing_core::callsite::rebuild_interest_cache();
            rec::mark("rebuild.done", "");
        }
    }
}

fn accepts(spec: &FiltSpec, cs: &rec::Cs) -> bool {
    // C04 never flips dynamic flags: dynamic filters accept what their static part accepts
    spec.static_accepts(cs.level, cs.target)
}

/// Child side: run one schedule of one scenario and judge it.
pub fn run_schedule(job: &[u8]) -> Vec<u8> {
    let job: SJob = serde_json::from_slice(job).unwrap();
    let sc: Scenario = serde_json::from_str(&job.scenario).unwrap();
    let res = run_scenario(&sc, job.prefix.clone(), job.record_steps);
    serde_json::to_vec(&res).unwrap()
}

fn run_scenario(sc: &Scenario, prefix: Vec<u8>, record_steps: bool) -> SResult {
    let w = Arc::new(World {
        slots: (0..NSLOTS).map(|_| Mutex::new(None)).collect(),
        specs: Mutex::new(vec![None; NSLOTS]),
    });
    sched::install_hooks();
    let mut cguards = vec![];
    for op in &sc.setup {
        exec(&w, &mut cguards, op);
    }
    let bodies: Vec<Box<dyn FnOnce() + Send>> = sc
        .threads
        .iter()
        .map(|ops| {
            let ops = ops.clone();
            let w = w.clone();
            Box::new(move || {
                let mut guards = vec![];
                for op in &ops {
                    exec(&w, &mut guards, op);
                }
                while guards.pop().is_some() {}
            }) as Box<dyn FnOnce() + Send>
        })
        .collect();
    let trace = sched::run_threads(RunCfg { prefix, horizon: 3000, record_steps }, bodies);
    let mut violations = vec![];
    let log = rec::take_log();
    let specs = w.specs.lock().unwrap().clone();
    match &trace.end {
        End::Done => {}
        End::Deadlock(wt) => violations.push(format!("deadlock: threads blocked at {:?}", wt)),
        End::Livelock => violations.push("livelock: step horizon exceeded".to_string()),
        End::Diverged(_) => {}
    }
    for (t, m) in &trace.panics {
        violations.push(format!("panic on t{}: {}", t, m));
    }
    // ---- (i) during the race -----------------------------------------------------------------
    judge_during(sc, &log, &specs, &mut violations);
    let mut obs = String::new();
    if trace.end == End::Done {
        // ---- (ii) at quiescence ---------------------------------------------------------------
        // callsites that completed registration (observation hook; a callsite short-circuited by the
        // global max level never registers and needs no offer)
        let hit: BTreeSet<String> = tracing::__macro_support::__verif_snapshot()
            .into_iter()
            .filter(|(_, _, reg)| *reg == 2)
            .map(|(m, _, _)| m.name().to_string())
            .collect();
        let global: Option<u8> = log.iter().find(|e| e.k == 255 && e.kind == "global.ok").map(|e| e.cs.parse().unwrap());
        let mut live: Vec<(u8, Dispatch)> = vec![];
        for s in 0..NSLOTS {
            if let Some(d) = w.slots[s].lock().unwrap().clone() {
                live.push((s as u8, d));
            }
        }
        // every callsite hit is offered to every collector that is live afterwards
        for (k, _) in &live {
            for c in &hit {
                if !log.iter().any(|e| e.k == *k && e.kind == "register_callsite" && &e.cs == c) {
                    violations.push(format!("callsite {} was never offered (register_callsite) to live collector k{}", c, k));
                }
            }
        }
        // the global max level is not left below a live collector's hint
        let cur = rec::rank_of_filter(LevelFilter::current());
        for (k, _) in &live {
            let sp = specs[*k as usize].unwrap();
            let hint = if sp.kind == 0 || sp.kind == 3 { sp.thr } else { 5 };
            if cur < hint {
                violations.push(format!("global max level left at rank {} below live collector k{}'s hint rank {}", cur, k, hint));
            }
        }
        // each live collector now receives exactly the emissions its filter accepts
        for (k, d) in &live {
            let sp = specs[*k as usize].unwrap();
            for cs in CALLSITES.iter().take(6) {
                let n0 = rec::log_len();
                tracing_core::dispatch::with_default(d, || (cs.emit)());
                let got = rec::log_since(n0);
                let delivered = got.iter().filter(|e| e.k == *k && (e.kind == "event" || e.kind == "new_span") && e.cs == cs.name).count();
                let want = usize::from(accepts(&sp, cs));
                if delivered != want {
                    violations.push(format!(
                        "at quiescence collector k{} ({}) received {} deliveries of {} (filter says {})",
                        k,
                        sp.short(),
                        delivered,
                        cs.name,
                        want
                    ));
                }
                for e in &got {
                    if e.k != *k && e.k != 255 && (e.kind == "event" || e.kind == "new_span") {
                        violations.push(format!("at quiescence emission of {} under k{} was delivered to k{}", cs.name, k, e.k));
                    }
                }
                obs.push_str(&format!("{}:{}={};", k, cs.name, delivered));
            }
        }
        // and the global default (if any) serves unscoped emissions
        if let Some(g) = global {
            let sp = specs[g as usize].unwrap();
            for cs in CALLSITES.iter().take(6) {
                let n0 = rec::log_len();
                (cs.emit)();
                let got = rec::log_since(n0);
                let delivered = got.iter().filter(|e| e.k == g && (e.kind == "event" || e.kind == "new_span")).count();
                if delivered != usize::from(accepts(&sp, cs)) {
                    violations.push(format!("at quiescence the global default k{} received {} deliveries of {}", g, delivered, cs.name));
                }
            }
        }
        drop(cguards);
    }
    // observation for distinct-outcome counting: the race-phase log restricted to collector entries
    for e in log.iter().filter(|e| e.k != 255) {
        obs.push_str(&format!("{}{}{}@{};", e.k, &e.kind[..3.min(e.kind.len())], e.cs, e.tid));
    }
    let mut conflicts = vec![];
    // conflict orders: relative order of each thread's first registry access
    let mut firsts: Vec<(i32, &str)> = vec![];
    for e in log.iter().filter(|e| e.k == 255 && (e.kind == "hit.end" || e.kind == "new.done" || e.kind == "rebuild.done" || e.kind == "drop.done" || e.kind == "global.ok")) {
        firsts.push((e.tid, &e.kind));
    }
    for i in 0..firsts.len() {
        for j in i + 1..firsts.len() {
            if firsts[i].0 != firsts[j].0 {
                conflicts.push(format!("t{}.{}<t{}.{}", firsts[i].0, firsts[i].1, firsts[j].0, firsts[j].1));
            }
        }
    }
    violations.sort();
    violations.dedup();
    SResult { trace: Some(trace), violations, known: vec![], obs, conflicts }
}

/// Oracle for the race phase, evaluated on the totally ordered log (one thread runs at a time).
fn judge_during(sc: &Scenario, log: &[Ev], specs: &[Option<FiltSpec>], violations: &mut Vec<String>) {
    // never delivered to a collector whose filter rejects it
    for e in log {
        if e.k != 255 && (e.kind == "event" || e.kind == "new_span") {
            let sp = specs[e.k as usize].unwrap();
            let cs = cs_by_name(&e.cs);
            if !accepts(&sp, &cs) {
                violations.push(format!("{} delivered to collector k{} ({}) whose filter rejects it", e.cs, e.k, sp.short()));
            }
        }
    }
    let attempts = log.iter().filter(|x| x.k == 255 && (x.kind == "global.ok" || x.kind == "global.err")).count();
    let oks = log.iter().filter(|x| x.k == 255 && x.kind == "global.ok").count();
    if attempts > 0 && oks != 1 {
        violations.push(format!("{} of {} set_global_default calls returned Ok (expected exactly one)", oks, attempts));
    }
    // per thread: replay its scope stack; judge each hit
    let nthreads = sc.threads.len() as i32;
    for t in 0..nthreads {
        let mut stack: Vec<u8> = vec![];
        let mut i = 0;
        while i < log.len() {
            let e = &log[i];
            if e.tid == t && e.k == 255 {
                match e.kind.as_str() {
                    "enter.done" => stack.push(e.cs.parse().unwrap()),
                    "leave.done" => {
                        stack.pop();
                    }
                    "hit.start" => {
                        let end = (i + 1..log.len()).find(|&j| log[j].tid == t && log[j].k == 255 && log[j].kind == "hit.end");
                        let Some(end) = end else {
                            i += 1;
                            continue; // aborted execution
                        };
                        let cs = cs_by_name(&e.cs);
                        let deliveries: Vec<&Ev> = log[i..end]
                            .iter()
                            .filter(|x| x.tid == t && x.k != 255 && (x.kind == "event" || x.kind == "new_span") && x.cs == e.cs)
                            .collect();
                        if let Some(&k) = stack.last() {
                            // installation on this thread completed before the emission started
                            let sp = specs[k as usize].unwrap();
                            let want = usize::from(accepts(&sp, &cs));
                            let got = deliveries.iter().filter(|x| x.k == k).count();
                            if got != want {
                                violations.push(format!(
                                    "t{} emitted {} under its installed collector k{} ({}): {} deliveries, filter says {}",
                                    t,
                                    e.cs,
                                    k,
                                    sp.short(),
                                    got,
                                    want
                                ));
                            }
                            if deliveries.iter().any(|x| x.k != k) {
                                violations.push(format!("t{} emission of {} under k{} reached another collector", t, e.cs, k));
                            }
                        } else {
                            // no scope: global default if installed before the emission started,
                            // global-or-nobody if its installation overlaps the emission
                            let g_before = log[..i].iter().find(|x| x.k == 255 && x.kind == "global.ok").map(|x| x.cs.parse::<u8>().unwrap());
                            // the (single) winner of set_global_default, if its call started before this emission ended
                            let winner = log.iter().find(|x| x.k == 255 && x.kind == "global.ok").map(|x| x.cs.parse::<u8>().unwrap());
                            let g_during = winner.filter(|g| log[..end].iter().any(|x| x.k == 255 && x.kind == "global.start" && x.cs == g.to_string()));
                            match (g_before, g_during) {
                                (Some(g), _) => {
                                    let sp = specs[g as usize].unwrap();
                                    let want = usize::from(accepts(&sp, &cs));
                                    let got = deliveries.iter().filter(|x| x.k == g).count();
                                    if got != want || deliveries.len() != got {
                                        violations.push(format!(
                                            "t{} emitted {} after the global default k{} was installed: {} deliveries to it ({} total), filter says {}",
                                            t,
                                            e.cs,
                                            g,
                                            got,
                                            deliveries.len(),
                                            want
                                        ));
                                    }
                                }
                                (None, Some(g)) => {
                                    if deliveries.iter().any(|x| x.k != g) || deliveries.len() > 1 {
                                        violations.push(format!("t{} unscoped emission of {} racing with set_global_default(k{}) reached {:?}", t, e.cs, g, deliveries));
                                    }
                                }
                                (None, None) => {
                                    if !deliveries.is_empty() {
                                        violations.push(format!("t{} unscoped emission of {} with no default was delivered to {:?}", t, e.cs, deliveries));
                                    }
                                }
                            }
                        }
                        i = end;
                    }
                    _ => {}
                }
            }
            i += 1;
        }
    }
}

fn spec(thr: u8, a_only: bool, kind: u8) -> FiltSpec {
    FiltSpec { thr, a_only, kind }
}

/// The scenario catalogue. Callsites are forced to collide (same callsite, or two callsites
/// pushed onto the same registry list while a Dispatch is being created).
pub fn scenarios(tier: Tier) -> Vec<Scenario> {
    let c = "ev_info_a".to_string(); // INFO target a
    let c2 = "ev_trace_b".to_string();
    let acc = spec(3, false, 0); // static always for c, with hint INFO
    let rej = spec(1, false, 0); // static never for c (ERROR only), hint ERROR
    let dynm = spec(5, false, 2); // dynamic, no hint
    let acc_nohint = spec(3, true, 1);
    let mut v = vec![];
    let mut add = |name: &str, setup: Vec<Op>, threads: Vec<Vec<Op>>| {
        v.push(Scenario { name: name.to_string(), setup, threads });
    };
    // S1: first hit of the same callsite on two threads, each under its own installed collector
    for (n, k0, k1) in [("acc/rej", acc, rej), ("acc/acc", acc, acc_nohint), ("dyn/rej", dynm, rej)] {
        add(
            &format!("S1 first-hit(c)||first-hit(c) {}", n),
            vec![Op::New(0, k0), Op::New(1, k1)],
            vec![vec![Op::Enter(0), Op::Hit(c.clone())], vec![Op::Enter(1), Op::Hit(c.clone())]],
        );
    }
    // S2: first hit under an installed collector || another thread creates, installs and uses a new one
    for (n, k0, k1) in [("rej then acc", rej, acc), ("acc then rej", acc, rej), ("rej then dyn", rej, dynm)] {
        add(
            &format!("S2 first-hit(c)||new+install+hit(c) {}", n),
            vec![Op::New(0, k0)],
            vec![vec![Op::Enter(0), Op::Hit(c.clone())], vec![Op::New(1, k1), Op::Enter(1), Op::Hit(c.clone())]],
        );
    }
    // S2b: no collector at all at the start
    add(
        "S2b first-hit(c) unscoped||new+install+hit(c)",
        vec![],
        vec![vec![Op::Hit(c.clone())], vec![Op::New(1, acc), Op::Enter(1), Op::Hit(c.clone())]],
    );
    // S3: two different callsites pushed concurrently while a Dispatch is created
    add(
        "S3 first-hit(c1)||first-hit(c2)||new",
        vec![Op::New(0, dynm)],
        vec![vec![Op::Enter(0), Op::Hit(c.clone())], vec![Op::Enter(0), Op::Hit(c2.clone())], vec![Op::New(1, spec(5, false, 0))]],
    );
    // S4: first hit || drop of a collector || creation of another
    add(
        "S4 first-hit(c)||drop(k)||new",
        vec![Op::New(0, acc), Op::New(2, rej)],
        vec![vec![Op::Enter(0), Op::Hit(c.clone())], vec![Op::Drop(2)], vec![Op::New(1, acc_nohint)]],
    );
    // S5: first hit || rebuild_interest_cache || new
    add(
        "S5 first-hit(c)||rebuild||new",
        vec![Op::New(0, acc)],
        vec![vec![Op::Enter(0), Op::Hit(c.clone())], vec![Op::Rebuild], vec![Op::New(1, rej)]],
    );
    // S10: two recomputations of the global maximum level race (a rebuild, or another collector's
    // creation, against the creation of a more verbose collector): the published maximum must not
    // end up below the more verbose collector's hint
    let verbose = spec(5, false, 0); // static, hint TRACE
    add("S10 rebuild||new(verbose)", vec![Op::New(0, rej)], vec![vec![Op::Rebuild], vec![Op::New(1, verbose), Op::Enter(1), Op::Hit(c2.clone())]]);
    add("S10 new(quiet)||new(verbose)", vec![], vec![vec![Op::New(0, rej)], vec![Op::New(1, verbose), Op::Enter(1), Op::Hit(c2.clone())]]);
    // S6: unscoped first hit || set_global_default
    for (n, k) in [("acc", acc), ("rej", rej)] {
        add(
            &format!("S6 first-hit(c)||set_global_default {}", n),
            vec![Op::New(0, k)],
            vec![vec![Op::Hit(c.clone()), Op::Hit(c.clone())], vec![Op::Global(0)]],
        );
    }
    // S7: the only accepting collector is created while another thread registers the callsite
    add(
        "S7 first-hit(c) under rej||new acc, later hit under acc",
        vec![Op::New(0, rej)],
        vec![vec![Op::Enter(0), Op::Hit(c.clone()), Op::Hit(c2.clone())], vec![Op::New(1, spec(5, false, 0)), Op::Enter(1), Op::Hit(c2.clone()), Op::Hit(c.clone())]],
    );
    if tier == Tier::Thorough {
        add(
            "S8 two creators||first-hit",
            vec![],
            vec![vec![Op::New(0, acc), Op::Enter(0), Op::Hit(c.clone())], vec![Op::New(1, rej), Op::Enter(1), Op::Hit(c.clone())], vec![Op::Hit(c2.clone())]],
        );
        add(
            "S9 drop last accepting||hit cached",
            vec![Op::New(0, acc), Op::New(1, dynm)],
            vec![vec![Op::Enter(1), Op::Hit(c.clone()), Op::Hit(c.clone())], vec![Op::Drop(0), Op::Rebuild]],
        );
    }
    v
}

pub fn replay(args: &Args, path: &str) -> i32 {
    let v: serde_json::Value = serde_json::from_str(&std::fs::read_to_string(path).expect("read replay")).expect("json");
    let job: SJob = serde_json::from_value(v["case"].clone()).expect("replay case");
    let mut job = job;
    job.record_steps = true;
    let bytes = serde_json::to_vec(&job).unwrap();
    let out1 = mc::pool::run_isolated(run_schedule, &bytes, Duration::from_secs(30));
    let out2 = mc::pool::run_isolated(run_schedule, &bytes, Duration::from_secs(30));
    let (mc::pool::Outcome::Ok(a), mc::pool::Outcome::Ok(b)) = (out1, out2) else {
        println!("MACHINERY-ERROR property={} replay child failed", args.property);
        return 2;
    };
    let r1: SResult = serde_json::from_slice(&a).unwrap();
    let r2: SResult = serde_json::from_slice(&b).unwrap();
    if r1.obs != r2.obs || r1.violations != r2.violations {
        println!("MACHINERY-ERROR property={} replay is not deterministic", args.property);
        return 2;
    }
    if let Some(t) = &r1.trace {
        for (tid, l) in &t.step_log {
            println!("  t{} {}", tid, l);
        }
    }
    if r1.violations.is_empty() {
        println!("replay: no violation on this schedule");
        0
    } else {
        for v in &r1.violations {
            println!("VIOLATION property={} replay={} :: {}", args.property, path, v);
        }
        1
    }
}

pub fn run(args: &Args) -> i32 {
    if let Some(p) = &args.replay {
        return replay(args, p);
    }
    let mut rep = Report::new(args, "model_checking");
    let mut pool = Pool::new(mc::pool::default_workers(), run_schedule, true, Duration::from_secs(20));
    let bound = std::env::var("VERIF_BOUND").ok().and_then(|s| s.parse().ok()).unwrap_or(args.tier.pick(2, 3));
    let total_budget = Duration::from_secs(args.tier.pick(45, 20 * 60));
    let scs = scenarios(args.tier);
    let start = Instant::now();
    let mut tot = (0u64, 0u64, 0u64);
    let mut distinct = 0usize;
    let mut per = vec![];
    let mut all_conflicts = BTreeSet::new();
    let mut capped_any = false;
    for (idx, sc) in scs.iter().enumerate() {
        let left = total_budget.saturating_sub(start.elapsed());
        let share = left / (scs.len() - idx) as u32;
        let cfg = ExploreCfg { bound, deadline: Instant::now() + share.max(Duration::from_secs(2)), max_schedules: u64::MAX, stop_on_violation: true };
        let mut st = Stats::default();
        let scj = serde_json::to_string(sc).unwrap();
        // determinism proof: the default schedule twice
        let j = serde_json::to_vec(&SJob { scenario: scj.clone(), prefix: vec![], record_steps: false }).unwrap();
        let mut obs = vec![];
        pool.run_list(vec![j.clone(), j], |_, o| {
            if let mc::pool::Outcome::Ok(b) = o {
                if let Ok(r) = serde_json::from_slice::<SResult>(&b) {
                    obs.push((r.obs, r.trace.map(|t| t.decisions)));
                }
            }
        });
        if obs.len() != 2 || obs[0] != obs[1] {
            rep.machinery_error(format!("scenario {}: default schedule not reproducible", sc.name));
            continue;
        }
        explore(&mut pool, &scj, &cfg, &mut st);
        tot.0 += st.schedules;
        tot.1 += st.tree_nodes;
        tot.2 += st.steps;
        distinct += st.distinct_obs.len();
        capped_any |= st.capped;
        for c in &st.conflicts {
            all_conflicts.insert(c.clone());
        }
        per.push(json!({"scenario": sc.name, "schedules": st.schedules, "by_preemptions": st.by_cost, "distinct_outcomes": st.distinct_obs.len(),
            "max_decisions": st.max_decisions, "capped": st.capped, "unexplored_prefixes": st.leftover}));
        for m in st.machinery {
            rep.machinery_error(format!("{}: {}", sc.name, m));
        }
        for (what, job) in st.violations.iter().take(3) {
            rep.violation(format!("[{}] {}", sc.name, what), serde_json::to_value(job).unwrap());
        }
        if let Some((job, labels)) = st.sample {
            rep.sample(json!({"scenario": sc.name, "schedule_choices": job.prefix, "decision_labels": labels}));
        }
    }
    rep.cov("states", tot.1);
    rep.cov("transitions", tot.2);
    rep.cov("traces_validated_against_impl", tot.0);
    rep.cov("schedules", tot.0);
    rep.cov("preemption_bound", bound as u64);
    rep.cov("bound_completed", !capped_any);
    rep.cov("distinct_outcomes", distinct as u64);
    rep.cov("distinct_conflict_orders", all_conflicts.len() as u64);
    rep.cov("scenarios", json!(per));
    rep.cov("explanation", "states = schedule-tree nodes visited; transitions = scheduling steps executed; every schedule is an execution of the real code in a fresh process");
    rep.assume("sequential consistency at the granularity of the hooked atomic operations and lock acquisitions (no weak-memory reorderings)");
    rep.assume("code between two hook points executes atomically; std's RwLock writer-preference queueing is not modelled (no thread ever waits inside a real lock)");
    rep.assume("collectors never emit from inside register_callsite");
    rep.finish()
}
