//! C02 — an emission goes to the thread's scoped default, else to the global default.
//! Engine H over scope/global/emit histories + Engine S for the initialisation races.
use crate::c04::{self, Op, Scenario};
use crate::hcore::{self, Cfg};
use crate::rec::FiltSpec;
use mc::explore::{explore, ExploreCfg, Stats};
use mc::pool::Pool;
use mc::{Args, Report};
use serde_json::json;
use std::time::{Duration, Instant};

fn s_scenarios() -> Vec<Scenario> {
    let all = FiltSpec { thr: 5, a_only: false, kind: 1 };
    let c = "ev_info_a".to_string();
    vec![
        Scenario {
            name: "G1 set_global||set_global||emit,emit".into(),
            setup: vec![Op::New(0, all), Op::New(1, all)],
            threads: vec![vec![Op::Global(0)], vec![Op::Global(1)], vec![Op::Hit(c.clone()), Op::Hit(c.clone())]],
        },
        Scenario {
            name: "G2 scope open/close||unscoped emits (global preinstalled)".into(),
            setup: vec![Op::New(0, all), Op::New(1, all), Op::Global(1)],
            threads: vec![vec![Op::Enter(0), Op::Hit(c.clone()), Op::Leave, Op::Hit(c.clone())], vec![Op::Hit(c.clone()), Op::Hit(c.clone())]],
        },
        Scenario {
            name: "G3 scope||unscoped emits||set_global".into(),
            setup: vec![Op::New(0, all), Op::New(1, all)],
            threads: vec![vec![Op::Enter(0), Op::Hit(c.clone()), Op::Leave], vec![Op::Hit(c.clone()), Op::Hit(c.clone())], vec![Op::Global(1)]],
        },
        Scenario {
            name: "G4 two scoped threads".into(),
            setup: vec![Op::New(0, all), Op::New(1, all)],
            threads: vec![vec![Op::Enter(0), Op::Hit(c.clone()), Op::Leave, Op::Hit(c.clone())], vec![Op::Enter(1), Op::Hit(c.clone()), Op::Leave, Op::Hit(c.clone())]],
        },
    ]
}

pub fn run(args: &Args) -> i32 {
    if let Some(p) = &args.replay {
        let v: serde_json::Value = serde_json::from_str(&std::fs::read_to_string(p).expect("read")).expect("json");
        return if v["case"].get("history").is_some() { crate::c01::replay(args, p) } else { c04::replay(args, p) };
    }
    let mut rep = Report::new(args, "model_checking");
    let f1_open = rep.is_open("F1");
    // ---- H part ------------------------------------------------------------------------------
    let (hst, cfg, depth) = {
        let mut pool = Pool::new(mc::pool::default_workers(), hcore::run_history, true, Duration::from_secs(20));
        let cfg = Cfg {
            mode: "C02".into(),
            threads: args.tier.pick(2, 3),
            slots: 2,
            specs: vec![],
            callsites: hcore::callsite_names(1),
            precreate: true,
            with_closures: true,
            max_stack: 2,
            f1_open,
            static_slot: true,
        };
        let depth = std::env::var("VERIF_DEPTH").ok().and_then(|s| s.parse().ok()).unwrap_or(args.tier.pick(6, 8));
        let st = crate::c01::run_cfg(args, &mut rep, &mut pool, &cfg, depth, Duration::from_secs(args.tier.pick(35, 8 * 60)), args.tier.pick(500_000, 20_000_000));
        // cross-check of the state merge: the same alphabet without de-duplication at a smaller depth
        let nd_depth = args.tier.pick(4, 5);
        let nd = crate::c01::run_cfg_dedup(args, &mut rep, &mut pool, &cfg, nd_depth, Duration::from_secs(args.tier.pick(20, 4 * 60)), args.tier.pick(300_000, 10_000_000), false);
        rep.cov("nodedup_depth_completed", nd.depth_completed as u64);
        rep.cov("nodedup_histories", nd.transitions);
        rep.cov("nodedup_capped", nd.capped);
        (st, cfg, depth)
    };
    // ---- S part ------------------------------------------------------------------------------
    let mut pool = Pool::new(mc::pool::default_workers(), c04::run_schedule, true, Duration::from_secs(20));
    let bound = args.tier.pick(2, 4);
    let mut sched = (0u64, 0u64, 0u64);
    let mut per = vec![];
    let mut capped = false;
    for sc in s_scenarios() {
        let mut st = Stats::default();
        let cfg = ExploreCfg { bound, deadline: Instant::now() + Duration::from_secs(args.tier.pick(8, 90)), max_schedules: u64::MAX, stop_on_violation: true };
        explore(&mut pool, &serde_json::to_string(&sc).unwrap(), &cfg, &mut st);
        sched.0 += st.schedules;
        sched.1 += st.tree_nodes;
        sched.2 += st.steps;
        capped |= st.capped;
        per.push(json!({"scenario": sc.name, "schedules": st.schedules, "by_preemptions": st.by_cost, "distinct_outcomes": st.distinct_obs.len(), "capped": st.capped}));
        for m in st.machinery {
            rep.machinery_error(format!("{}: {}", sc.name, m));
        }
        for (what, job) in st.violations.iter().take(2) {
            rep.violation(format!("[{}] {}", sc.name, what), serde_json::to_value(job).unwrap());
        }
        if let Some((job, labels)) = st.sample {
            rep.sample(json!({"scenario": sc.name, "schedule_choices": job.prefix, "decision_labels": labels}));
        }
    }
    rep.cov("states", hst.states + sched.1);
    rep.cov("transitions", hst.transitions + sched.2);
    rep.cov("traces_validated_against_impl", hst.transitions + sched.0);
    rep.cov("history_states", hst.states);
    rep.cov("history_transitions", hst.transitions);
    rep.cov("history_depth_completed", hst.depth_completed as u64);
    rep.cov("history_depth_requested", depth as u64);
    rep.cov("history_capped", hst.capped);
    rep.cov("cut_by_known_finding", hst.cut_by_known);
    rep.cov("schedules", sched.0);
    rep.cov("preemption_bound", bound as u64);
    rep.cov("schedule_bound_completed", !capped);
    rep.cov("scenarios", json!(per));
    rep.cov("history_configuration", serde_json::to_value(&cfg).unwrap());
    rep.cov("explanation", "history part: states = distinct keys (per-thread scope stacks incl. with_default frames, global, per-thread 'thread-local populated before/after the global existed' bit), transitions = histories executed on real threads in a fresh process; schedule part: every interleaving up to the preemption bound of the initialisation races");
    rep.assume("scopes are properly nested per thread (alphabet restriction)");
    rep.assume("sequential consistency at hook granularity for the schedule part");
    rep.finish()
}
