//! Engine H harness for C01 (caches vs. the collector's own filter) and C02 (dispatch selection):
//! histories of operations on real threads (sequentially interleaved), each history executed in a
//! fresh process; a reference model runs alongside and supplies the oracle and the enabled ops.
use crate::rec::{self, cs_by_name, FiltSpec, RecCollector, CALLSITES, FLAGS};
use mc::hist::{HJob, HResult};
use serde::{Deserialize, Serialize};
use std::sync::atomic::Ordering;
use std::sync::mpsc::{channel, Receiver, Sender};
use tracing_core::dispatch::{self, DefaultGuard};
use tracing_core::{Dispatch, LevelFilter};

#[derive(Clone, Debug, Serialize, Deserialize)]
pub struct Cfg {
    /// "C01" or "C02"
    pub mode: String,
    pub threads: usize,
    pub slots: usize,
    /// filter pool for New(k, spec)
    pub specs: Vec<FiltSpec>,
    /// callsite names used by Emit/Probe
    pub callsites: Vec<String>,
    /// C02: collectors pre-created in every slot (accept-all)
    pub precreate: bool,
    pub with_closures: bool,
    pub max_stack: usize,
    /// F1 listed as an open known finding: attribute its effects instead of reporting them
    pub f1_open: bool,
    /// C02: the last pre-created collector is a `&'static` one wrapped with `Dispatch::from_static`,
    /// and `Dispatch::none()` can be opened as a scope (it silences the thread)
    #[serde(default)]
    pub static_slot: bool,
}

enum Cmd {
    Open(Dispatch),
    Close,
    WithOpen(Dispatch),
    WithClose(bool),
    Emit(String),
    Probe(String),
    Query,
    SetGlobal(Dispatch),
    Exit,
}

#[derive(Debug)]
enum Reply {
    Done,
    Bool(bool),
    Id(Option<u8>),
}

enum Frame {
    Closed,
    Exit,
}

fn current_id() -> Option<u8> {
    dispatch::get_default(|d| d.downcast_ref::<RecCollector>().map(|c| c.id))
}

fn serve(rx: &Receiver<Cmd>, tx: &Sender<Reply>) -> Frame {
    let mut guards: Vec<DefaultGuard> = vec![];
    loop {
        match rx.recv().unwrap_or(Cmd::Exit) {
            Cmd::Open(d) => {
                guards.push(dispatch::set_default(&d));
                tx.send(Reply::Done).unwrap();
            }
            Cmd::Close => {
                guards.pop();
                tx.send(Reply::Done).unwrap();
            }
            Cmd::WithOpen(d) => {
                tx.send(Reply::Done).unwrap();
                let r = std::panic::catch_unwind(std::panic::AssertUnwindSafe(|| dispatch::with_default(&d, || serve(rx, tx))));
                match r {
                    Ok(Frame::Exit) => return Frame::Exit,
                    _ => tx.send(Reply::Done).unwrap(),
                }
            }
            Cmd::WithClose(panic) => {
                if panic {
                    std::panic::resume_unwind(Box::new("scripted panic inside with_default"));
                }
                return Frame::Closed;
            }
            Cmd::Emit(c) => {
                (cs_by_name(&c).emit)();
                tx.send(Reply::Done).unwrap();
            }
            Cmd::Probe(c) => {
                let b = (cs_by_name(&c).probe)();
                tx.send(Reply::Bool(b)).unwrap();
            }
            Cmd::Query => tx.send(Reply::Id(current_id())).unwrap(),
            Cmd::SetGlobal(d) => {
                let ok = dispatch::set_global_default(d).is_ok();
                tx.send(Reply::Bool(ok)).unwrap();
            }
            Cmd::Exit => return Frame::Exit,
        }
    }
}

// ---------------- reference model ------------------------------------------------------------------

#[derive(Clone, Debug, PartialEq, Eq)]
struct MFrame {
    with: bool,
    k: u8,
}

#[derive(Clone, Debug)]
struct Model {
    /// per slot: Some((spec, on)) when a collector object exists (its Dispatch handle is held)
    slots: Vec<Option<(FiltSpec, bool)>>,
    /// collectors whose handle was dropped but which are still installed somewhere keep their spec
    ghost: Vec<Option<(FiltSpec, bool)>>,
    stacks: Vec<Vec<MFrame>>,
    global: Option<u8>,
    /// hidden thread-local base (what the slot falls back to): 0 unset, 1 populated while no global
    /// existed, 2 populated with the global
    base: Vec<u8>,
}

/// model slot number of a `Dispatch::none()` scope
const NONE_K: u8 = 255;

impl Model {
    fn open_scopes(&self) -> usize {
        self.stacks.iter().map(|s| s.len()).sum()
    }
    fn expected_current(&self, t: usize) -> Option<u8> {
        match self.stacks[t].last() {
            // a `Dispatch::none()` scope: nobody, not even the global default
            Some(f) if f.k == NONE_K => None,
            Some(f) => Some(f.k),
            // (the no-op collector installed as the global default: nobody either)
            None => self.global.filter(|g| *g != NONE_K),
        }
    }
    /// what the pinned implementation does when F1 is present
    fn f1_current(&self, t: usize) -> Option<u8> {
        if let Some(f) = self.stacks[t].last() {
            return if f.k == NONE_K { None } else { Some(f.k) };
        }
        if self.open_scopes() == 0 {
            return self.global.filter(|g| *g != NONE_K);
        }
        match self.base[t] {
            1 => None,
            _ => self.global.filter(|g| *g != NONE_K),
        }
    }
    /// a thread consulted its default through the slow path (some scope open anywhere)
    fn touch(&mut self, t: usize) {
        if self.open_scopes() > 0 && self.base[t] == 0 {
            self.base[t] = if self.global.is_some() { 2 } else { 1 };
        }
    }
    fn spec_of(&self, k: u8) -> Option<(FiltSpec, bool)> {
        self.slots[k as usize].or(self.ghost[k as usize])
    }
    fn accepts(&self, k: u8, level: u8, target: &str) -> bool {
        match self.spec_of(k) {
            Some((sp, on)) => sp.static_accepts(level, target) && (sp.kind < 2 || on),
            None => false,
        }
    }
    fn key(&self) -> String {
        format!("{:?}|{:?}|{:?}|{:?}|{:?}", self.slots, self.ghost, self.stacks, self.global, self.base)
    }
}

fn enabled_ops(cfg: &Cfg, m: &Model) -> Vec<String> {
    let mut v = vec![];
    let c01 = cfg.mode == "C01";
    // simplest first: emissions/queries, then scope ops, then global, then collector turnover
    for t in 0..cfg.threads {
        for c in &cfg.callsites {
            v.push(format!("emit:{}:{}", t, c));
        }
        if !c01 {
            v.push(format!("query:{}", t));
        }
    }
    if c01 {
        for t in 0..cfg.threads {
            for c in &cfg.callsites {
                v.push(format!("probe:{}:{}", t, c));
            }
        }
    }
    for t in 0..cfg.threads {
        if m.stacks[t].len() < cfg.max_stack {
            for k in 0..cfg.slots {
                if m.slots[k].is_some() {
                    v.push(format!("open:{}:{}", t, k));
                    if cfg.with_closures {
                        v.push(format!("wopen:{}:{}", t, k));
                    }
                }
            }
            if cfg.static_slot && t == 0 {
                v.push(format!("open:{}:none", t));
            }
        }
        match m.stacks[t].last() {
            Some(f) if f.with => {
                v.push(format!("wclose:{}", t));
                v.push(format!("wpanic:{}", t));
            }
            Some(_) => v.push(format!("close:{}", t)),
            None => {}
        }
    }
    for k in 0..cfg.slots {
        if m.slots[k].is_some() {
            // repeated attempts are part of the alphabet; one thread issues them (which thread
            // calls set_global_default is immaterial to the implementation)
            v.push(format!("global:0:{}", k));
            if cfg.threads > 1 && !c01 {
                v.push(format!("global:1:{}", k));
            }
        }
    }
    // the no-op collector is a collector like any other for the one-shot global default
    if !c01 {
        v.push("global:0:none".to_string());
    }
    if c01 {
        v.push("rebuild".to_string());
        // New into the lowest empty slot only (slots are symmetric)
        if let Some(k) = (0..cfg.slots).find(|k| m.slots[*k].is_none() && m.ghost[*k].is_none()) {
            for i in 0..cfg.specs.len() {
                v.push(format!("new:{}:{}", k, i));
            }
        }
        for k in 0..cfg.slots {
            if let Some((sp, _)) = m.slots[k] {
                v.push(format!("drop:{}", k));
                if sp.kind >= 2 {
                    v.push(format!("flip:{}", k));
                }
            }
        }
    }
    v
}

pub fn initial_model(cfg: &Cfg) -> Model {
    Model {
        slots: vec![None; cfg.slots],
        ghost: vec![None; cfg.slots],
        stacks: vec![vec![]; cfg.threads],
        global: None,
        base: vec![0; cfg.threads],
    }
}

/// Child side: execute one history on the real code, judging every step.
pub fn run_history(job: &[u8]) -> Vec<u8> {
    let job: HJob = serde_json::from_slice(job).unwrap();
    let cfg: Cfg = serde_json::from_str(&job.cfg).unwrap();
    let res = run(&cfg, &job.history);
    serde_json::to_vec(&res).unwrap()
}

struct Th {
    tx: Sender<Cmd>,
    rx: Receiver<Reply>,
}

fn call(th: &Th, c: Cmd) -> Reply {
    th.tx.send(c).unwrap();
    th.rx.recv().expect("worker thread died")
}

fn run(cfg: &Cfg, history: &[String]) -> HResult {
    let mut m = initial_model(cfg);
    let mut res = HResult::default();
    let mut handles: Vec<Option<Dispatch>> = vec![None; cfg.slots];
    let mut threads = vec![];
    for t in 0..cfg.threads {
        let (ctx, crx) = channel::<Cmd>();
        let (rtx, rrx) = channel::<Reply>();
        std::thread::spawn(move || {
            rec::HARNESS_TID.with(|x| x.set(Some(t as i32)));
            let _ = serve(&crx, &rtx);
        });
        threads.push(Th { tx: ctx, rx: rrx });
    }
    let all = FiltSpec { thr: 5, a_only: false, kind: 1 };
    if cfg.precreate {
        for k in 0..cfg.slots {
            handles[k] = Some(if cfg.static_slot && k + 1 == cfg.slots {
                let leaked: &'static RecCollector = Box::leak(Box::new(RecCollector::new(k as u8, all, &FLAGS[k])));
                Dispatch::from_static(leaked)
            } else {
                Dispatch::new(RecCollector::new(k as u8, all, &FLAGS[k]))
            });
            m.slots[k] = Some((all, true));
        }
    }
    let c01 = cfg.mode == "C01";
    let mut f1_seen = false;
    for (step, op) in history.iter().enumerate() {
        let p: Vec<&str> = op.split(':').collect();
        let n0 = rec::log_len();
        let fail = |res: &mut HResult, msg: String| res.violations.push(format!("step {} ({}): {}", step, op, msg));
        match p[0] {
            "emit" | "probe" => {
                let t: usize = p[1].parse().unwrap();
                let cs = cs_by_name(p[2]);
                // which collector does the implementation consider current? (C01 takes this from
                // the implementation: selection is C02's business)
                let want_k = m.expected_current(t);
                let f1_k = m.f1_current(t);
                let impl_k = if c01 {
                    match call(&threads[t], Cmd::Query) {
                        Reply::Id(i) => i,
                        r => panic!("{:?}", r),
                    }
                } else {
                    None
                };
                m.touch(t);
                let probe_ret = if p[0] == "emit" {
                    call(&threads[t], Cmd::Emit(p[2].to_string()));
                    None
                } else {
                    match call(&threads[t], Cmd::Probe(p[2].to_string())) {
                        Reply::Bool(b) => Some(b),
                        r => panic!("{:?}", r),
                    }
                };
                let got = rec::log_since(n0);
                let deliveries: Vec<u8> = got
                    .iter()
                    .filter(|e| e.k != 255 && (e.kind == "event" || e.kind == "new_span") && e.cs == cs.name)
                    .map(|e| e.k)
                    .collect();
                if got.iter().any(|e| e.k != 255 && e.tid != t as i32) {
                    fail(&mut res, "a collector was called on a different thread than the emitting one".into());
                }
                let judge_k = if c01 { impl_k } else { want_k };
                let accept = judge_k.map_or(false, |k| m.accepts(k, cs.level, cs.target));
                let want: Vec<u8> = if accept { vec![judge_k.unwrap()] } else { vec![] };
                match probe_ret {
                    None => {
                        if deliveries != want {
                            // known finding F1: stale thread-local `none`
                            let f1_want: Vec<u8> = match f1_k {
                                Some(k) if m.accepts(k, cs.level, cs.target) => vec![k],
                                _ => vec![],
                            };
                            if !c01 && cfg.f1_open && want_k != f1_k && deliveries == f1_want {
                                f1_seen = true;
                            } else {
                                fail(
                                    &mut res,
                                    format!(
                                        "emission of {} on t{}: delivered to {:?}, expected {:?} (current collector {:?}, its filter {})",
                                        cs.name,
                                        t,
                                        deliveries,
                                        want,
                                        judge_k,
                                        judge_k.and_then(|k| m.spec_of(k)).map(|s| s.0.short()).unwrap_or_default()
                                    ),
                                );
                            }
                        }
                        res.obs = format!("emit->{:?}", deliveries);
                    }
                    Some(b) => {
                        if b != accept {
                            fail(&mut res, format!("enabled!({}) on t{} returned {}, the current collector {:?}'s filter says {}", cs.name, t, b, judge_k, accept));
                        }
                        if !deliveries.is_empty() {
                            fail(&mut res, "enabled! probe caused a delivery".into());
                        }
                        res.obs = format!("probe->{}", b);
                    }
                }
                // never delivered to a collector that rejects it
                for k in &deliveries {
                    if !m.accepts(*k, cs.level, cs.target) {
                        fail(&mut res, format!("{} delivered to k{} whose filter rejects it", cs.name, k));
                    }
                }
            }
            "query" => {
                let t: usize = p[1].parse().unwrap();
                let want = m.expected_current(t);
                let f1_k = m.f1_current(t);
                m.touch(t);
                let got = match call(&threads[t], Cmd::Query) {
                    Reply::Id(i) => i,
                    r => panic!("{:?}", r),
                };
                if got != want {
                    if cfg.f1_open && got == f1_k {
                        f1_seen = true;
                    } else {
                        fail(&mut res, format!("Dispatch::default() on t{} is {:?}, expected {:?}", t, got, want));
                    }
                }
                res.obs = format!("query->{:?}", got);
            }
            "open" | "wopen" => {
                let t: usize = p[1].parse().unwrap();
                let (k, d) = if p[2] == "none" { (NONE_K as usize, Dispatch::none()) } else {
                    let k: usize = p[2].parse().unwrap();
                    (k, handles[k].clone().unwrap())
                };
                if m.base[t] == 0 {
                    m.base[t] = if m.global.is_some() { 2 } else { 1 };
                }
                if p[0] == "open" {
                    call(&threads[t], Cmd::Open(d));
                } else {
                    call(&threads[t], Cmd::WithOpen(d));
                }
                m.stacks[t].push(MFrame { with: p[0] == "wopen", k: k as u8 });
            }
            "close" => {
                let t: usize = p[1].parse().unwrap();
                call(&threads[t], Cmd::Close);
                m.stacks[t].pop();
            }
            "wclose" | "wpanic" => {
                let t: usize = p[1].parse().unwrap();
                call(&threads[t], Cmd::WithClose(p[0] == "wpanic"));
                m.stacks[t].pop();
            }
            "global" => {
                let t: usize = p[1].parse().unwrap();
                let (k, d) = if p[2] == "none" { (NONE_K as usize, Dispatch::none()) } else {
                    let k: usize = p[2].parse().unwrap();
                    (k, handles[k].clone().unwrap())
                };
                let ok = match call(&threads[t], Cmd::SetGlobal(d)) {
                    Reply::Bool(b) => b,
                    r => panic!("{:?}", r),
                };
                let want = m.global.is_none();
                if ok != want {
                    fail(&mut res, format!("set_global_default returned {} (expected {})", if ok { "Ok" } else { "Err" }, if want { "Ok" } else { "Err" }));
                }
                if want {
                    m.global = Some(k as u8);
                }
                res.obs = format!("global->{}", ok);
            }
            "new" => {
                let (k, i): (usize, usize) = (p[1].parse().unwrap(), p[2].parse().unwrap());
                let sp = cfg.specs[i];
                FLAGS[k].store(true, Ordering::SeqCst);
                handles[k] = Some(Dispatch::new(RecCollector::new(k as u8, sp, &FLAGS[k])));
                m.slots[k] = Some((sp, true));
            }
            "drop" => {
                let k: usize = p[1].parse().unwrap();
                handles[k] = None;
                let was = m.slots[k].take();
                // still installed somewhere? then the collector object lives on
                let installed = m.global == Some(k as u8) || m.stacks.iter().any(|s| s.iter().any(|f| f.k == k as u8));
                if installed {
                    m.ghost[k] = was;
                }
            }
            "flip" => {
                let k: usize = p[1].parse().unwrap();
                let (sp, on) = m.slots[k].unwrap();
                FLAGS[k].store(!on, Ordering::SeqCst);
                m.slots[k] = Some((sp, !on));
            }
            "rebuild" => tracing_core::callsite::rebuild_interest_cache(),
            _ => panic!("bad op {}", op),
        }
        // ghosts disappear when no longer installed anywhere
        for k in 0..cfg.slots {
            if m.ghost[k].is_some() {
                let installed = m.global == Some(k as u8) || m.stacks.iter().any(|s| s.iter().any(|f| f.k == k as u8));
                if !installed {
                    m.ghost[k] = None;
                }
            }
        }
        if !res.violations.is_empty() {
            break;
        }
    }
    // end-of-history probes: every thread's Dispatch::default() identity. They are part of the
    // oracle (C02) and of the canonical key (hidden thread-local / counter state shows up here),
    // and cannot disturb the history itself because the process ends afterwards.
    let mut probes = vec![];
    if res.violations.is_empty() {
        for t in 0..cfg.threads {
            let got = match call(&threads[t], Cmd::Query) {
                Reply::Id(i) => i,
                r => panic!("{:?}", r),
            };
            let want = m.expected_current(t);
            if !c01 && got != want {
                if cfg.f1_open && got == m.f1_current(t) {
                    f1_seen = true;
                } else {
                    res.violations.push(format!(
                        "after the history, Dispatch::default() on t{} is {:?}, expected {:?}",
                        t, got, want
                    ));
                }
            }
            probes.push(got);
        }
        probes.push(if dispatch::has_been_set() { Some(1) } else { Some(0) });
    }
    if f1_seen {
        res.known.push("F1".to_string());
        res.cut = true;
    }
    // canonical key: model + implementation caches
    let mut snap: Vec<String> = tracing::__macro_support::__verif_snapshot()
        .into_iter()
        .map(|(meta, i, r)| format!("{}={}/{}", meta.name(), i, r))
        .collect();
    snap.sort();
    res.key = format!("{}|{:?}|{}|{:?}", m.key(), snap, rec::rank_of_filter(LevelFilter::current()), probes);
    res.next = enabled_ops(cfg, &m);
    for th in &threads {
        let _ = th.tx.send(Cmd::Exit);
    }
    res
}

pub fn callsite_names(n: usize) -> Vec<String> {
    CALLSITES.iter().take(n).map(|c| c.name.to_string()).collect()
}
