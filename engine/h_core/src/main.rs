//! Harness for the tracing-core / tracing properties: C01 C02 C04 C19.
mod c01;
mod c02;
mod c04;
mod hcore;
mod c19;
pub mod rec;

fn main() {
    let args = mc::parse_args();
    let code = match args.property.as_str() {
        "C01" => c01::run(&args),
        "C02" => c02::run(&args),
        "C04" => c04::run(&args),
        "C19" => c19::run(&args),
        p => {
            eprintln!("h_core: unknown property {}", p);
            2
        }
    };
    std::process::exit(code);
}
