//! Harness for the tracing-core / tracing properties: C01 C02 C04 C19.
mod c04;
mod c19;
pub mod rec;

fn main() {
    let args = mc::parse_args();
    let code = match args.property.as_str() {
        "C04" => c04::run(&args),
        "C19" => c19::run(&args),
        p => {
            eprintln!("h_core: unknown property {}", p);
            2
        }
    };
    std::process::exit(code);
}
