//! Harness for the tracing-core / tracing properties: C01 C02 C04 C19.
mod c19;

fn main() {
    let args = mc::parse_args();
    let code = match args.property.as_str() {
        "C19" => c19::run(&args),
        p => {
            eprintln!("h_core: unknown property {}", p);
            2
        }
    };
    std::process::exit(code);
}
