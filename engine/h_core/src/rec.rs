//! Recording collector with a self-consistent, model-describable filter, and the callsite pool
//! (real macros, one function per callsite).
use serde::{Deserialize, Serialize};
use std::sync::atomic::{AtomicBool, AtomicU64, Ordering};
use std::sync::Mutex;
use tracing_core::{span, Collect, Event, Interest, LevelFilter, Metadata};

pub fn rank(l: &tracing_core::Level) -> u8 {
    match *l {
        tracing_core::Level::ERROR => 1,
        tracing_core::Level::WARN => 2,
        tracing_core::Level::INFO => 3,
        tracing_core::Level::DEBUG => 4,
        _ => 5,
    }
}

pub fn filter_of_rank(r: u8) -> LevelFilter {
    match r {
        0 => LevelFilter::OFF,
        1 => LevelFilter::ERROR,
        2 => LevelFilter::WARN,
        3 => LevelFilter::INFO,
        4 => LevelFilter::DEBUG,
        _ => LevelFilter::TRACE,
    }
}

pub fn rank_of_filter(f: LevelFilter) -> u8 {
    (0..=5).find(|r| filter_of_rank(*r) == f).unwrap()
}

/// kind: 0 = static interest + max-level hint, 1 = static interest, no hint,
///       2 = dynamic (`sometimes`) no hint, 3 = dynamic with (true upper bound) hint
#[derive(Clone, Copy, Debug, Serialize, Deserialize, PartialEq, Eq, PartialOrd, Ord)]
pub struct FiltSpec {
    pub thr: u8,
    pub a_only: bool,
    pub kind: u8,
}

impl FiltSpec {
    pub fn static_accepts(&self, level_rank: u8, target: &str) -> bool {
        level_rank <= self.thr && (!self.a_only || target == "a")
    }
    pub fn short(&self) -> String {
        format!(
            "{}{}{}",
            ["off", "error", "warn", "info", "debug", "trace"][self.thr as usize],
            if self.a_only { "@a" } else { "" },
            ["/sh", "/s", "/d", "/dh"][self.kind as usize]
        )
    }
}

#[derive(Clone, Debug, Serialize, Deserialize, PartialEq, Eq)]
pub struct Ev {
    /// collector id, or 255 for harness marks
    pub k: u8,
    pub kind: String,
    pub cs: String,
    /// scheduler thread id, or -1 for the controller
    pub tid: i32,
}

pub static LOG: Mutex<Vec<Ev>> = Mutex::new(Vec::new());

pub fn tid() -> i32 {
    match (mc::sched::current_tid(), HARNESS_TID.with(|t| t.get())) {
        (Some(t), _) => t as i32,
        (None, Some(t)) => t,
        _ => -1,
    }
}

thread_local! {
    pub static HARNESS_TID: std::cell::Cell<Option<i32>> = const { std::cell::Cell::new(None) };
}

pub fn log(k: u8, kind: &str, cs: &str) {
    LOG.lock().unwrap_or_else(|e| e.into_inner()).push(Ev { k, kind: kind.to_string(), cs: cs.to_string(), tid: tid() });
}

pub fn mark(kind: &str, cs: &str) {
    log(255, kind, cs)
}

pub fn take_log() -> Vec<Ev> {
    std::mem::take(&mut *LOG.lock().unwrap_or_else(|e| e.into_inner()))
}

pub fn log_len() -> usize {
    LOG.lock().unwrap_or_else(|e| e.into_inner()).len()
}

pub fn log_since(n: usize) -> Vec<Ev> {
    LOG.lock().unwrap_or_else(|e| e.into_inner())[n..].to_vec()
}

pub struct RecCollector {
    pub id: u8,
    pub spec: FiltSpec,
    pub on: &'static AtomicBool,
    next_id: AtomicU64,
}

impl RecCollector {
    pub fn new(id: u8, spec: FiltSpec, on: &'static AtomicBool) -> Self {
        RecCollector { id, spec, on, next_id: AtomicU64::new(1) }
    }
    fn accepts(&self, m: &Metadata<'_>) -> bool {
        self.spec.static_accepts(rank(m.level()), m.target()) && (self.spec.kind < 2 || self.on.load(Ordering::SeqCst))
    }
}

impl Collect for RecCollector {
    fn register_callsite(&self, m: &'static Metadata<'static>) -> Interest {
        log(self.id, "register_callsite", m.name());
        if self.spec.kind < 2 {
            if self.spec.static_accepts(rank(m.level()), m.target()) {
                Interest::always()
            } else {
                Interest::never()
            }
        } else {
            Interest::sometimes()
        }
    }
    fn enabled(&self, m: &Metadata<'_>) -> bool {
        let r = self.accepts(m);
        log(self.id, if r { "enabled=true" } else { "enabled=false" }, m.name());
        r
    }
    fn max_level_hint(&self) -> Option<LevelFilter> {
        match self.spec.kind {
            0 | 3 => Some(filter_of_rank(self.spec.thr)),
            _ => None,
        }
    }
    fn new_span(&self, a: &span::Attributes<'_>) -> span::Id {
        log(self.id, "new_span", a.metadata().name());
        span::Id::from_u64(((self.id as u64 + 1) << 32) | self.next_id.fetch_add(1, Ordering::SeqCst))
    }
    fn record(&self, _: &span::Id, _: &span::Record<'_>) {}
    fn record_follows_from(&self, _: &span::Id, _: &span::Id) {}
    fn event(&self, e: &Event<'_>) {
        log(self.id, "event", e.metadata().name());
    }
    fn enter(&self, _: &span::Id) {}
    fn exit(&self, _: &span::Id) {}
    fn current_span(&self) -> span::Current {
        span::Current::unknown()
    }
}

// ---- callsite pool: real macros, one function each ------------------------------------------------

#[derive(Clone, Copy, Debug)]
pub struct Cs {
    pub name: &'static str,
    pub level: u8,
    pub target: &'static str,
    pub is_span: bool,
    pub emit: fn(),
    pub probe: fn() -> bool,
}

macro_rules! ev_cs {
    ($f:ident, $p:ident, $name:literal, $target:literal, $lvl:expr) => {
        fn $f() {
            tracing::event!(name: $name, target: $target, $lvl, "m");
        }
        fn $p() -> bool {
            tracing::enabled!(target: $target, $lvl)
        }
    };
}
macro_rules! span_cs {
    ($f:ident, $p:ident, $name:literal, $target:literal, $lvl:expr) => {
        fn $f() {
            let s = tracing::span!(target: $target, $lvl, $name);
            drop(s);
        }
        fn $p() -> bool {
            tracing::enabled!(kind: tracing::metadata::Kind::SPAN, target: $target, $lvl)
        }
    };
}

ev_cs!(e_err_a, p_err_a, "ev_error_a", "a", tracing::Level::ERROR);
ev_cs!(e_info_a, p_info_a, "ev_info_a", "a", tracing::Level::INFO);
ev_cs!(e_trace_a, p_trace_a, "ev_trace_a", "a", tracing::Level::TRACE);
ev_cs!(e_err_b, p_err_b, "ev_error_b", "b", tracing::Level::ERROR);
ev_cs!(e_info_b, p_info_b, "ev_info_b", "b", tracing::Level::INFO);
ev_cs!(e_trace_b, p_trace_b, "ev_trace_b", "b", tracing::Level::TRACE);
ev_cs!(e_debug_a, p_debug_a, "ev_debug_a", "a", tracing::Level::DEBUG);
span_cs!(s_err_a, ps_err_a, "sp_error_a", "a", tracing::Level::ERROR);
span_cs!(s_info_a, ps_info_a, "sp_info_a", "a", tracing::Level::INFO);
span_cs!(s_trace_b, ps_trace_b, "sp_trace_b", "b", tracing::Level::TRACE);

pub const CALLSITES: &[Cs] = &[
    Cs { name: "ev_info_a", level: 3, target: "a", is_span: false, emit: e_info_a, probe: p_info_a },
    Cs { name: "ev_trace_b", level: 5, target: "b", is_span: false, emit: e_trace_b, probe: p_trace_b },
    Cs { name: "ev_error_a", level: 1, target: "a", is_span: false, emit: e_err_a, probe: p_err_a },
    Cs { name: "sp_info_a", level: 3, target: "a", is_span: true, emit: s_info_a, probe: ps_info_a },
    Cs { name: "ev_info_b", level: 3, target: "b", is_span: false, emit: e_info_b, probe: p_info_b },
    Cs { name: "ev_trace_a", level: 5, target: "a", is_span: false, emit: e_trace_a, probe: p_trace_a },
    Cs { name: "ev_error_b", level: 1, target: "b", is_span: false, emit: e_err_b, probe: p_err_b },
    Cs { name: "sp_error_a", level: 1, target: "a", is_span: true, emit: s_err_a, probe: ps_err_a },
    Cs { name: "sp_trace_b", level: 5, target: "b", is_span: true, emit: s_trace_b, probe: ps_trace_b },
    Cs { name: "ev_debug_a", level: 4, target: "a", is_span: false, emit: e_debug_a, probe: p_debug_a },
];

pub fn cs_by_name(n: &str) -> Cs {
    *CALLSITES.iter().find(|c| c.name == n).unwrap_or_else(|| panic!("unknown callsite {}", n))
}

/// dynamic on/off flags for up to 8 collectors (leaked statics so collectors can be `'static`)
pub static FLAGS: [AtomicBool; 8] = [
    AtomicBool::new(true),
    AtomicBool::new(true),
    AtomicBool::new(true),
    AtomicBool::new(true),
    AtomicBool::new(true),
    AtomicBool::new(true),
    AtomicBool::new(true),
    AtomicBool::new(true),
];
