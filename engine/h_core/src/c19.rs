//! C19 — levels and level filters form one total order; text round-trips; MAX_LEVEL reads back.
//! Complete enumeration of a finite space (no sampling).
use mc::pool::{run_isolated, Outcome};
use mc::{Args, Report};
use serde_json::json;
use std::cmp::Ordering;
use std::collections::BTreeSet;
use std::str::FromStr;
use std::time::Duration;
use tracing_core::{Level, LevelFilter};

const LEVELS: [(Level, u8, &str); 5] = [
    (Level::ERROR, 1, "error"),
    (Level::WARN, 2, "warn"),
    (Level::INFO, 3, "info"),
    (Level::DEBUG, 4, "debug"),
    (Level::TRACE, 5, "trace"),
];
const FILTERS: [(LevelFilter, u8, &str); 6] = [
    (LevelFilter::OFF, 0, "off"),
    (LevelFilter::ERROR, 1, "error"),
    (LevelFilter::WARN, 2, "warn"),
    (LevelFilter::INFO, 3, "info"),
    (LevelFilter::DEBUG, 4, "debug"),
    (LevelFilter::TRACE, 5, "trace"),
];

struct Ctx<'a> {
    rep: &'a mut Report,
    evals: u64,
    distinct: BTreeSet<String>,
}

impl Ctx<'_> {
    fn check(&mut self, case: String, ok: bool, detail: impl FnOnce() -> String) {
        self.evals += 1;
        self.distinct.insert(case.clone());
        if !ok {
            let d = detail();
            self.rep.violation(format!("{}: {}", case, d), json!({"case": case, "detail": d}));
        }
    }
}

macro_rules! ops {
    ($cx:expr, $kind:expr, $a:expr, $ra:expr, $b:expr, $rb:expr) => {{
        let (a, b, ra, rb) = ($a, $b, $ra as u8, $rb as u8);
        let name = format!("{} {:?} vs {:?}", $kind, a, b);
        $cx.check(format!("{} ==", name), (a == b) == (ra == rb), || format!("got {}", a == b));
        $cx.check(format!("{} !=", name), (a != b) == (ra != rb), || format!("got {}", a != b));
        $cx.check(format!("{} <", name), (a < b) == (ra < rb), || format!("got {}", a < b));
        $cx.check(format!("{} <=", name), (a <= b) == (ra <= rb), || format!("got {}", a <= b));
        $cx.check(format!("{} >", name), (a > b) == (ra > rb), || format!("got {}", a > b));
        $cx.check(format!("{} >=", name), (a >= b) == (ra >= rb), || format!("got {}", a >= b));
        $cx.check(format!("{} partial_cmp", name), a.partial_cmp(&b) == Some(ra.cmp(&rb)), || {
            format!("got {:?}", a.partial_cmp(&b))
        });
    }};
}

fn case_patterns(name: &str) -> Vec<String> {
    let n = name.len();
    (0..(1u32 << n))
        .map(|mask| {
            name.chars()
                .enumerate()
                .map(|(i, c)| if mask & (1 << i) != 0 { c.to_ascii_uppercase() } else { c })
                .collect()
        })
        .collect()
}

/// fresh process: install collectors with the given hints, return LevelFilter::current() readings
fn max_level_child(job: &[u8]) -> Vec<u8> {
    use tracing_core::{span, Collect, Dispatch, Event, Interest, Metadata};
    struct K(Option<LevelFilter>);
    impl Collect for K {
        fn register_callsite(&self, _: &'static Metadata<'static>) -> Interest {
            Interest::sometimes()
        }
        fn enabled(&self, _: &Metadata<'_>) -> bool {
            true
        }
        fn max_level_hint(&self) -> Option<LevelFilter> {
            self.0
        }
        fn new_span(&self, _: &span::Attributes<'_>) -> span::Id {
            span::Id::from_u64(1)
        }
        fn record(&self, _: &span::Id, _: &span::Record<'_>) {}
        fn record_follows_from(&self, _: &span::Id, _: &span::Id) {}
        fn event(&self, _: &Event<'_>) {}
        fn enter(&self, _: &span::Id) {}
        fn exit(&self, _: &span::Id) {}
        fn current_span(&self) -> span::Current {
            span::Current::unknown()
        }
    }
    let hints: Vec<i8> = serde_json::from_slice(job).unwrap();
    let to_hint = |h: i8| -> Option<LevelFilter> {
        if h < 0 {
            None
        } else {
            Some(FILTERS[h as usize].0)
        }
    };
    let rank = |f: LevelFilter| FILTERS.iter().find(|x| x.0 == f).unwrap().1;
    let mut out: Vec<u8> = vec![rank(LevelFilter::current())];
    let d1 = Dispatch::new(K(to_hint(hints[0])));
    out.push(rank(LevelFilter::current()));
    if hints.len() > 1 {
        let d2 = Dispatch::new(K(to_hint(hints[1])));
        out.push(rank(LevelFilter::current()));
        drop(d2);
        tracing_core::callsite::rebuild_interest_cache();
        out.push(rank(LevelFilter::current()));
    }
    drop(d1);
    tracing_core::callsite::rebuild_interest_cache();
    out.push(rank(LevelFilter::current()));
    serde_json::to_vec(&out).unwrap()
}

/// fresh process: tracing-subscriber's `LevelFilter` used as a subscriber (kind 0) or as a
/// per-subscriber filter (kind 1) on a Registry; returns LevelFilter::current() readings
fn max_level_subscriber_child(job: &[u8]) -> Vec<u8> {
    use tracing_subscriber::prelude::*;
    let (kind, h) = (job[0], job[1] as usize);
    let f: tracing_subscriber::filter::LevelFilter = FILTERS[h].0;
    let rank = |f: LevelFilter| FILTERS.iter().find(|x| x.0 == f).unwrap().1;
    let mut out: Vec<u8> = vec![rank(LevelFilter::current())];
    let d = if kind == 0 {
        tracing_core::Dispatch::new(tracing_subscriber::registry().with(f))
    } else {
        tracing_core::Dispatch::new(tracing_subscriber::registry().with(tracing_subscriber::subscribe::Identity::new().with_filter(f)))
    };
    out.push(rank(LevelFilter::current()));
    drop(d);
    tracing_core::callsite::rebuild_interest_cache();
    out.push(rank(LevelFilter::current()));
    serde_json::to_vec(&out).unwrap()
}

pub fn run(args: &Args) -> i32 {
    // --replay: the whole space is enumerated in well under a second, so a replay is a re-run
    let mut rep = Report::new(args, "exploration");
    let known_empty = rep.is_open("F10");
    let mut empty_hit = false;
    {
        let mut cx = Ctx { rep: &mut rep, evals: 0, distinct: BTreeSet::new() };

        // ---- order: every ordered pair x every operator -------------------------------------
        for (a, ra, _) in LEVELS {
            for (b, rb, _) in LEVELS {
                ops!(cx, "L/L", a, ra, b, rb);
                let name = format!("L/L {:?} vs {:?}", a, b);
                cx.check(format!("{} cmp", name), a.cmp(&b) == ra.cmp(&rb), || format!("got {:?}", a.cmp(&b)));
                let (mn, mx) = (std::cmp::min(a, b), std::cmp::max(a, b));
                cx.check(format!("{} min", name), mn == if ra <= rb { a } else { b }, || format!("got {:?}", mn));
                cx.check(format!("{} max", name), mx == if ra >= rb { a } else { b }, || format!("got {:?}", mx));
            }
            for (f, rf, _) in FILTERS {
                ops!(cx, "L/F", a, ra, f, rf);
                ops!(cx, "F/L", f, rf, a, ra);
            }
        }
        for (a, ra, _) in FILTERS {
            for (b, rb, _) in FILTERS {
                ops!(cx, "F/F", a, ra, b, rb);
                let name = format!("F/F {:?} vs {:?}", a, b);
                cx.check(format!("{} cmp", name), a.cmp(&b) == ra.cmp(&rb), || format!("got {:?}", a.cmp(&b)));
                let (mn, mx) = (std::cmp::min(a, b), std::cmp::max(a, b));
                cx.check(format!("{} min", name), mn == if ra <= rb { a } else { b }, || format!("got {:?}", mn));
                cx.check(format!("{} max", name), mx == if ra >= rb { a } else { b }, || format!("got {:?}", mx));
                for (c, rc, _) in FILTERS {
                    if ra <= rc {
                        let cl = b.clamp(a, c);
                        let want = rb.clamp(ra, rc);
                        cx.check(
                            format!("F clamp {:?} in [{:?},{:?}]", b, a, c),
                            FILTERS.iter().find(|x| x.0 == cl).unwrap().1 == want,
                            || format!("got {:?}", cl),
                        );
                    }
                }
            }
        }
        // sorting a permutation agrees with the integer order (transitivity as a whole)
        let mut fs: Vec<LevelFilter> = FILTERS.iter().rev().map(|x| x.0).collect();
        fs.sort();
        cx.check("sort filters".into(), fs == FILTERS.iter().map(|x| x.0).collect::<Vec<_>>(), || format!("{:?}", fs));
        let mut ls: Vec<Level> = LEVELS.iter().rev().map(|x| x.0).collect();
        ls.sort();
        cx.check("sort levels".into(), ls == LEVELS.iter().map(|x| x.0).collect::<Vec<_>>(), || format!("{:?}", ls));

        // ---- conversions ---------------------------------------------------------------------
        for (l, rl, _) in LEVELS {
            let f = LevelFilter::from_level(l);
            let want = FILTERS[rl as usize].0;
            cx.check(format!("from_level {:?}", l), f == want, || format!("got {:?}", f));
            let f2: LevelFilter = l.into();
            cx.check(format!("From<Level> {:?}", l), f2 == want, || format!("got {:?}", f2));
            let f3: LevelFilter = Some(l).into();
            cx.check(format!("From<Option<Level>> {:?}", l), f3 == want, || format!("got {:?}", f3));
            cx.check(format!("into_level {:?}", f), f.into_level() == Some(l), || format!("got {:?}", f.into_level()));
            let o: Option<Level> = f.into();
            cx.check(format!("Into<Option<Level>> {:?}", f), o == Some(l), || format!("got {:?}", o));
            // tracing re-exports
            let tf: tracing::level_filters::LevelFilter = tracing::level_filters::LevelFilter::from_level(l);
            cx.check(format!("tracing re-export from_level {:?}", l), tf == want, || format!("got {:?}", tf));
        }
        let none: LevelFilter = None.into();
        cx.check("From<None>".into(), none == LevelFilter::OFF, || format!("got {:?}", none));
        cx.check("OFF.into_level".into(), LevelFilter::OFF.into_level().is_none(), || "Some".into());

        // tracing-log maps: order-preserving bijections
        {
            use tracing_log::{AsLog, AsTrace};
            let log_levels = [log::Level::Error, log::Level::Warn, log::Level::Info, log::Level::Debug, log::Level::Trace];
            let log_filters = [
                log::LevelFilter::Off,
                log::LevelFilter::Error,
                log::LevelFilter::Warn,
                log::LevelFilter::Info,
                log::LevelFilter::Debug,
                log::LevelFilter::Trace,
            ];
            for (i, (l, _, _)) in LEVELS.iter().enumerate() {
                cx.check(format!("as_log {:?}", l), l.as_log() == log_levels[i], || format!("got {:?}", l.as_log()));
                cx.check(format!("as_trace {:?}", log_levels[i]), log_levels[i].as_trace() == *l, || {
                    format!("got {:?}", log_levels[i].as_trace())
                });
                cx.check(format!("as_log/as_trace round trip {:?}", l), l.as_log().as_trace() == *l, || "".into());
            }
            for (i, (f, _, _)) in FILTERS.iter().enumerate() {
                cx.check(format!("filter as_log {:?}", f), f.as_log() == log_filters[i], || format!("got {:?}", f.as_log()));
                cx.check(format!("filter as_trace {:?}", log_filters[i]), log_filters[i].as_trace() == *f, || {
                    format!("got {:?}", log_filters[i].as_trace())
                });
            }
            // order preservation on all pairs
            for (i, a) in log_levels.iter().enumerate() {
                for (j, b) in log_levels.iter().enumerate() {
                    // log orders Error < Warn < ... < Trace too
                    cx.check(
                        format!("as_trace order {:?} {:?}", a, b),
                        a.as_trace().cmp(&b.as_trace()) == i.cmp(&j) && a.cmp(b) == i.cmp(&j),
                        || "order differs".into(),
                    );
                }
            }
        }

        // 'level enabled by filter' means level <= filter
        for (l, rl, _) in LEVELS {
            for (f, rf, _) in FILTERS {
                cx.check(format!("enabled {:?} by {:?}", l, f), (l <= f) == (rl <= rf), || format!("got {}", l <= f));
                cx.check(format!("enabled(rev) {:?} by {:?}", l, f), (f >= l) == (rl <= rf), || format!("got {}", f >= l));
            }
        }

        // ---- text ---------------------------------------------------------------------------
        // Display/Debug -> parse round trip
        for (l, _, _) in LEVELS {
            let s = l.to_string();
            cx.check(format!("Level display round trip {}", s), Level::from_str(&s).ok() == Some(l), || {
                format!("{:?}", Level::from_str(&s).ok())
            });
            // padding honoured, text unchanged
            let s = format!("{:>7}|{:<7}|", l, l);
            cx.check(format!("Level pad {}", s), s.replace(' ', "") == format!("{}|{}|", l, l) && s.len() == 16, || s.clone());
        }
        for (f, _, _) in FILTERS {
            let s = f.to_string();
            cx.check(format!("Filter display round trip {}", s), LevelFilter::from_str(&s).ok() == Some(f), || {
                format!("{:?}", LevelFilter::from_str(&s).ok())
            });
        }
        // accepted spellings = exactly: names in every case pattern, digits (levels 1-5, filters 0-5)
        let mut accepted_l: Vec<(String, Level)> = vec![];
        let mut accepted_f: Vec<(String, LevelFilter)> = vec![];
        for (l, r, name) in LEVELS {
            for p in case_patterns(name) {
                accepted_l.push((p, l));
            }
            accepted_l.push((r.to_string(), l));
        }
        for (f, r, name) in FILTERS {
            for p in case_patterns(name) {
                accepted_f.push((p, f));
            }
            accepted_f.push((r.to_string(), f));
        }
        for (s, l) in &accepted_l {
            let got = Level::from_str(s).ok();
            cx.check(format!("Level parse {:?}", s), got == Some(*l), || format!("got {:?}", got));
        }
        for (s, f) in &accepted_f {
            let got = LevelFilter::from_str(s).ok();
            cx.check(format!("Filter parse {:?}", s), got == Some(*f), || format!("got {:?}", got));
        }
        // everything else is rejected: noise around every accepted spelling, other digits, other words.
        // ('+' and leading zeros are deliberately not in the noise alphabet: "+1"/"01" denote a
        // documented number and the property does not say whether such spellings count.)
        let noise = [" ", "\t", "\n", "x", "=", ",", "é"];
        let mut rejected: BTreeSet<String> = BTreeSet::new();
        let base: BTreeSet<String> = accepted_f.iter().map(|x| x.0.clone()).collect();
        for s in &base {
            for n in noise {
                rejected.insert(format!("{}{}", n, s));
                rejected.insert(format!("{}{}", s, n));
                rejected.insert(format!("{}{}{}", n, s, n));
            }
            // doubled, truncated
            rejected.insert(format!("{}{}", s, s));
            if s.len() > 1 {
                rejected.insert(s[..s.len() - 1].to_string());
                rejected.insert(s[1..].to_string());
            }
        }
        for d in 6..=99 {
            rejected.insert(d.to_string());
        }
        for w in ["-1", "1.0", "1e0", "0x1", "١", "warning", "err", "none", "all", "verbose", "critical", "fatal", "max", "levelfilter::info", "LevelFilter::INFO"] {
            rejected.insert(w.to_string());
        }
        let acc_l: BTreeSet<String> = accepted_l.iter().map(|x| x.0.clone()).collect();
        for s in &rejected {
            // numerals denoting a documented number ("00", "01") are unspecified spellings: skip
            if s.is_empty() || s.parse::<usize>().map_or(false, |n| n <= 5) {
                continue;
            }
            // a truncation of one spelling may be another documented spelling: those are accepted ones
            if !base.contains(s) {
                let got = LevelFilter::from_str(s).ok();
                cx.check(format!("Filter reject {:?}", s), got.is_none(), || format!("accepted as {:?}", got));
            }
            if !acc_l.contains(s) {
                let got = Level::from_str(s).ok();
                cx.check(format!("Level reject {:?}", s), got.is_none(), || format!("accepted as {:?}", got));
            }
        }
        // "off"/"0" are not levels
        for s in case_patterns("off").into_iter().chain(["0".to_string()]) {
            let got = Level::from_str(&s).ok();
            cx.check(format!("Level reject {:?}", s), got.is_none(), || format!("accepted as {:?}", got));
        }
        // the empty string
        let got = Level::from_str("").ok();
        cx.check("Level reject \"\"".into(), got.is_none(), || format!("accepted as {:?}", got));
        let got = LevelFilter::from_str("").ok();
        cx.evals += 1;
        cx.distinct.insert("Filter reject \"\"".into());
        if let Some(g) = got {
            if known_empty && g == LevelFilter::ERROR {
                empty_hit = true;
            } else {
                cx.rep.violation(
                    format!("LevelFilter::from_str(\"\") accepted as {:?}", g),
                    json!({"case": "Filter reject \"\"", "input": ""}),
                );
            }
        }

        // ---- MAX_LEVEL round trip (fresh process per configuration) ---------------------------
        let hints: Vec<i8> = vec![-1, 0, 1, 2, 3, 4, 5];
        let eff = |h: i8| -> u8 {
            if h < 0 {
                5
            } else {
                h as u8
            }
        };
        for &h1 in &hints {
            for h2 in std::iter::once(None).chain(hints.iter().map(|h| Some(*h))) {
                let cfg: Vec<i8> = match h2 {
                    None => vec![h1],
                    Some(h2) => vec![h1, h2],
                };
                let job = serde_json::to_vec(&cfg).unwrap();
                let out = run_isolated(max_level_child, &job, Duration::from_secs(20));
                let case = format!("MAX_LEVEL hints {:?}", cfg);
                match out {
                    Outcome::Ok(b) => {
                        let got: Vec<u8> = serde_json::from_slice(&b).unwrap();
                        let want: Vec<u8> = match h2 {
                            None => vec![0, eff(h1), 0],
                            Some(h2) => vec![0, eff(h1), eff(h1).max(eff(h2)), eff(h1), 0],
                        };
                        cx.check(case, got == want, || format!("LevelFilter::current() readings {:?}, expected {:?}", got, want));
                    }
                    o => {
                        cx.check(case, false, || format!("child failed: {:?}", o));
                    }
                }
            }
        }
        // the same through tracing-subscriber's re-exported LevelFilter as a subscriber / filter
        for kind in [0u8, 1] {
            for h in 0..6u8 {
                let case = format!("MAX_LEVEL registry().with({}) filter #{}", if kind == 0 { "LevelFilter" } else { "Identity.with_filter(LevelFilter)" }, h);
                match run_isolated(max_level_subscriber_child, &[kind, h], Duration::from_secs(20)) {
                    Outcome::Ok(b) => {
                        let got: Vec<u8> = serde_json::from_slice(&b).unwrap();
                        let want = vec![0, FILTERS[h as usize].1, 0];
                        cx.check(case, got == want, || format!("LevelFilter::current() readings {:?}, expected {:?}", got, want));
                    }
                    o => {
                        cx.check(case, false, || format!("child failed: {:?}", o));
                    }
                }
            }
        }
        let _ = Ordering::Less;
        let evals = cx.evals;
        let distinct = cx.distinct.len() as u64;
        rep.cov("evaluations", evals);
        rep.cov("distinct_nontrivial", distinct);
    }
    if empty_hit {
        rep.known_hit("F10");
    }
    rep.cov("exhaustive", true);
    rep.cov(
        "rule",
        "complete enumeration: all ordered pairs over 5 levels + 6 filters x {==,!=,<,<=,>,>=,partial_cmp,cmp,min,max,clamp}; all conversions incl. tracing-log maps; every name in all 2^n case patterns, digits 0-99, 7-symbol noise before/after/both sides, truncations, doublings, empty string; MAX_LEVEL read-back for every 1- and 2-collector hint assignment in a fresh process each. A case is distinct by its textual description (operand pair + operator, or input string); every case compares the implementation with the integer rank table, so none is trivial.",
    );
    rep.sample(json!({"case": "L/F Level(Info) vs LevelFilter::WARN <=", "expected": false}));
    rep.sample(json!({"case": "Filter parse \"wArN\"", "expected": "LevelFilter::WARN"}));
    rep.sample(json!({"case": "Filter reject \" info\"", "expected": "Err"}));
    rep.sample(json!({"case": "MAX_LEVEL hints [2, -1]", "expected_readings": [0, 2, 5, 2, 0]}));
    rep.assume("the rank table OFF=0<ERROR=1<WARN=2<INFO=3<DEBUG=4<TRACE=5 is the specification");
    rep.assume("spellings such as \"+1\" or \"01\" (a documented number with sign/leading zero) are left unspecified by the property and are not checked");
    rep.finish()
}
