//! C01 — caches never change what a collector's own filter decides (Engine H).
use crate::hcore::{self, Cfg};
use crate::rec::FiltSpec;
use mc::hist::{bfs, HCfg, HStats};
use mc::pool::Pool;
use mc::{Args, Report, Tier};
use serde_json::json;
use std::time::{Duration, Instant};

pub fn spec_pool(tier: Tier) -> Vec<FiltSpec> {
    let s = |thr, a_only, kind| FiltSpec { thr, a_only, kind };
    match tier {
        // pairwise-interesting pool: a quiet static one with hint, a verbose static one without,
        // a target-restricted one, a dynamic one with and without hint, and OFF
        Tier::Quick => vec![s(1, false, 0), s(5, false, 1), s(3, true, 0), s(5, false, 2), s(3, false, 3)],
        Tier::Thorough => vec![
            s(0, false, 0),
            s(1, false, 0),
            s(3, false, 0),
            s(5, false, 1),
            s(3, true, 0),
            s(3, true, 1),
            s(5, false, 2),
            s(3, false, 3),
            s(5, true, 2),
        ],
    }
}

pub fn run_cfg(args: &Args, rep: &mut Report, pool: &mut Pool, cfg: &Cfg, depth: usize, budget: Duration, max_tr: u64) -> HStats {
    run_cfg_dedup(args, rep, pool, cfg, depth, budget, max_tr, true)
}

#[allow(clippy::too_many_arguments)]
pub fn run_cfg_dedup(args: &Args, rep: &mut Report, pool: &mut Pool, cfg: &Cfg, depth: usize, budget: Duration, max_tr: u64, dedup: bool) -> HStats {
    run_cfg_roots(args, rep, pool, cfg, depth, budget, max_tr, dedup, vec![])
}

#[allow(clippy::too_many_arguments)]
pub fn run_cfg_roots(args: &Args, rep: &mut Report, pool: &mut Pool, cfg: &Cfg, depth: usize, budget: Duration, max_tr: u64, dedup: bool, roots: Vec<Vec<String>>) -> HStats {
    let mut st = HStats::default();
    let h = HCfg { max_depth: depth, deadline: Instant::now() + budget, max_transitions: max_tr, dedup, crash_is_violation: true, roots };
    let cfgs = serde_json::to_string(cfg).unwrap();
    bfs(pool, &cfgs, &h, &mut st);
    for m in &st.machinery {
        rep.machinery_error(m.clone());
    }
    for (w, j) in st.violations.iter().take(3) {
        rep.violation(w.clone(), serde_json::to_value(j).unwrap());
    }
    for (k, n) in &st.known {
        for _ in 0..*n {
            rep.known_hit(k);
        }
    }
    for s in &st.samples {
        rep.sample(json!({"history": s.history}));
    }
    let _ = args;
    st
}

pub fn replay(args: &Args, path: &str) -> i32 {
    let v: serde_json::Value = serde_json::from_str(&std::fs::read_to_string(path).expect("read replay")).expect("json");
    let job: mc::hist::HJob = serde_json::from_value(v["case"].clone()).expect("case");
    let bytes = serde_json::to_vec(&job).unwrap();
    match mc::pool::run_isolated(hcore::run_history, &bytes, Duration::from_secs(30)) {
        mc::pool::Outcome::Ok(b) => {
            let r: mc::hist::HResult = serde_json::from_slice(&b).unwrap();
            println!("history: {:?}", job.history);
            if r.violations.is_empty() {
                println!("replay: no violation");
                0
            } else {
                for x in r.violations {
                    println!("VIOLATION property={} replay={} :: {}", args.property, path, x);
                }
                1
            }
        }
        o => {
            println!("VIOLATION property={} replay={} :: child {:?}", args.property, path, o);
            1
        }
    }
}

pub fn run(args: &Args) -> i32 {
    if let Some(p) = &args.replay {
        return replay(args, p);
    }
    let mut rep = Report::new(args, "model_checking");
    let mut pool = Pool::new(mc::pool::default_workers(), hcore::run_history, true, Duration::from_secs(20));
    let cfg = Cfg {
        mode: "C01".into(),
        threads: args.tier.pick(1, 2),
        slots: args.tier.pick(2, 3),
        specs: spec_pool(args.tier),
        callsites: hcore::callsite_names(args.tier.pick(3, 5)),
        precreate: false,
        with_closures: false,
        max_stack: 1,
        f1_open: false,
        static_slot: false,
    };
    let depth = std::env::var("VERIF_DEPTH").ok().and_then(|s| s.parse().ok()).unwrap_or(args.tier.pick(5, 7));
    // roots: the initial state, and two "warm" states in which every callsite is already
    // registered with a cached interest left behind by a collector that has since been dropped
    // (cached `always` / cached `never`), so that stale-cache histories are within the depth bound.
    let verbose = cfg.specs.iter().position(|s| s.thr == 5 && s.kind == 1).expect("pool has trace/static/no-hint");
    let quiet_nohint = FiltSpec { thr: 1, a_only: false, kind: 1 };
    let mut cfg = cfg;
    cfg.specs.push(quiet_nohint);
    let quiet = cfg.specs.len() - 1;
    let warm = |i: usize| -> Vec<String> {
        let mut h = vec![format!("new:0:{}", i)];
        for c in &cfg.callsites {
            h.push(format!("emit:0:{}", c));
        }
        h.push("drop:0".to_string());
        h
    };
    let roots = vec![vec![], warm(verbose), warm(quiet)];
    let st = run_cfg_roots(args, &mut rep, &mut pool, &cfg, depth, Duration::from_secs(args.tier.pick(40, 15 * 60)), args.tier.pick(600_000, 20_000_000), true, roots.clone());
    rep.cov("roots", json!(roots));
    // second configuration: two threads, fewer filters (scoped defaults on two threads at once)
    let cfg2 = Cfg { threads: 2, slots: 2, specs: vec![cfg.specs[0], cfg.specs[1], cfg.specs[3]], callsites: hcore::callsite_names(2), ..cfg.clone() };
    let st2 = run_cfg(args, &mut rep, &mut pool, &cfg2, args.tier.pick(4, 6), Duration::from_secs(args.tier.pick(15, 5 * 60)), args.tier.pick(200_000, 8_000_000));
    // schedule part: first hits of one callsite racing on two threads (the per-callsite
    // registration state machine is one of the caches in front of the collector)
    drop(pool);
    let mut spool = Pool::new(mc::pool::default_workers(), crate::c04::run_schedule, true, Duration::from_secs(20));
    let bound = args.tier.pick(2, 3);
    let mut sch = (0u64, 0u64, 0u64);
    let mut s_capped = false;
    for sc in crate::c04::scenarios(args.tier).into_iter().filter(|s| s.name.starts_with("S1") || s.name.starts_with("S2")) {
        let mut sst = mc::explore::Stats::default();
        let ecfg = mc::explore::ExploreCfg { bound, deadline: Instant::now() + Duration::from_secs(args.tier.pick(6, 120)), max_schedules: u64::MAX, stop_on_violation: true };
        mc::explore::explore(&mut spool, &serde_json::to_string(&sc).unwrap(), &ecfg, &mut sst);
        sch.0 += sst.schedules;
        sch.1 += sst.tree_nodes;
        sch.2 += sst.steps;
        s_capped |= sst.capped;
        for m in sst.machinery {
            rep.machinery_error(format!("{}: {}", sc.name, m));
        }
        for (what, job) in sst.violations.iter().take(2) {
            rep.violation(format!("[{}] {}", sc.name, what), serde_json::to_value(job).unwrap());
        }
    }
    rep.cov("schedules", sch.0);
    rep.cov("schedule_preemption_bound", bound as u64);
    rep.cov("schedule_bound_completed", !s_capped);
    rep.cov("states", st.states + st2.states + sch.1);
    rep.cov("transitions", st.transitions + st2.transitions + sch.2);
    rep.cov("traces_validated_against_impl", st.transitions + st2.transitions + sch.0);
    rep.cov("history_states", st.states + st2.states);
    rep.cov("history_transitions", st.transitions + st2.transitions);
    rep.cov("depth_completed", json!([st.depth_completed, st2.depth_completed]));
    rep.cov("depth_requested", json!([depth, args.tier.pick(4, 6)]));
    rep.cov("capped", st.capped || st2.capped);
    rep.cov("unexplored_frontier", (st.leftover + st2.leftover) as u64);
    rep.cov("distinct_outcomes", (st.distinct_obs.len() + st2.distinct_obs.len()) as u64);
    rep.cov("per_depth_new_states_and_transitions", json!([st.per_depth, st2.per_depth]));
    rep.cov("configurations", json!([serde_json::to_value(&cfg).unwrap(), serde_json::to_value(&cfg2).unwrap()]));
    rep.cov("explanation", "states = distinct canonical keys (model state + cached interest/registration byte of every callsite + LevelFilter::current()); transitions = histories executed, each on the real code in a fresh process with the oracle evaluated at every step");
    rep.assume("filters are self-consistent (a static collector that said never/always answers enabled accordingly; hints are true upper bounds)");
    rep.assume("which collector is current is taken from the implementation (Dispatch::default identity); selection itself is checked by C02");
    rep.assume("merging two histories with equal keys is sound: remaining hidden state (registry list order, dispatcher list order) does not influence deliveries");
    rep.finish()
}
