//! Harness for the Span API / macro properties: C03 C10.
mod c03;
mod c10;
mod c10_gen;

fn main() {
    let args = mc::parse_args();
    let code = match args.property.as_str() {
        "C03" => c03::run(&args),
        "C10" => c10::run(&args),
        p => {
            eprintln!("h_span: unknown property {}", p);
            2
        }
    };
    std::process::exit(code);
}
