//! C10 — macros record each field once, typed, in order; disabled ones evaluate nothing.
//! Exhaustive over a generated corpus (tools/gen_c10.py): every macro x prefix form x field-list
//! shape, and every supported value type with boundary values, each run under five collector
//! stages (enabled / static never / dynamic false / dynamic true / level hint cap), one fresh
//! process per stage; a typed recording visitor and side-effect counters are the oracle.
use crate::c10_gen::CASES;
use mc::pool::{run_isolated, Outcome};
use mc::{Args, Report};
use serde::{Deserialize, Serialize};
use serde_json::json;
use std::cell::RefCell;
use std::collections::BTreeSet;
use std::fmt;
use std::sync::Mutex;
use std::time::Duration;
use tracing_core::field::{Field, Visit};
use tracing_core::{span, Collect, Dispatch, Event, Interest, LevelFilter, Metadata};

pub struct Exp {
    pub name: &'static str,
    pub method: &'static str,
    pub value: &'static str,
}

pub struct Case {
    pub name: &'static str,
    pub kind: &'static str,
    /// level rank of the callsite (1 = ERROR .. 5 = TRACE)
    pub level: u8,
    pub run: fn(usize),
    pub arg: usize,
    pub exp: &'static [Exp],
    pub ticks: &'static [u32],
    pub undeclared: bool,
}

thread_local! {
    static TICKS: RefCell<Vec<u32>> = const { RefCell::new(Vec::new()) };
    static PROBE: RefCell<Option<bool>> = const { RefCell::new(None) };
}

pub fn tick<T>(i: usize, v: T) -> T {
    TICKS.with(|t| {
        let mut t = t.borrow_mut();
        if t.len() <= i {
            t.resize(i + 1, 0);
        }
        t[i] += 1;
    });
    v
}

pub fn probe_result(r: bool) {
    PROBE.with(|p| *p.borrow_mut() = Some(r));
}

pub struct DV(pub &'static str);
impl fmt::Display for DV {
    fn fmt(&self, f: &mut fmt::Formatter<'_>) -> fmt::Result {
        f.write_str(self.0)
    }
}
impl fmt::Debug for DV {
    fn fmt(&self, f: &mut fmt::Formatter<'_>) -> fmt::Result {
        write!(f, "DBG<{}>", self.0)
    }
}

#[derive(Debug)]
pub struct MyErr(pub &'static str, pub Option<Box<MyErr>>);
impl fmt::Display for MyErr {
    fn fmt(&self, f: &mut fmt::Formatter<'_>) -> fmt::Result {
        f.write_str(self.0)
    }
}
impl std::error::Error for MyErr {
    fn source(&self) -> Option<&(dyn std::error::Error + 'static)> {
        self.1.as_ref().map(|e| &**e as &(dyn std::error::Error + 'static))
    }
}

#[derive(Clone, Debug, PartialEq, Eq, Serialize, Deserialize)]
struct Rec {
    name: String,
    method: String,
    value: String,
}

struct V<'a>(&'a mut Vec<Rec>);
impl V<'_> {
    fn push(&mut self, f: &Field, m: &str, v: String) {
        self.0.push(Rec { name: f.name().to_string(), method: m.to_string(), value: v });
    }
}
impl Visit for V<'_> {
    fn record_f64(&mut self, f: &Field, v: f64) {
        let s = if v.is_nan() { "nan".to_string() } else { format!("bits:{}", v.to_bits()) };
        self.push(f, "f64", s)
    }
    fn record_i64(&mut self, f: &Field, v: i64) {
        self.push(f, "i64", v.to_string())
    }
    fn record_u64(&mut self, f: &Field, v: u64) {
        self.push(f, "u64", v.to_string())
    }
    fn record_i128(&mut self, f: &Field, v: i128) {
        self.push(f, "i128", v.to_string())
    }
    fn record_u128(&mut self, f: &Field, v: u128) {
        self.push(f, "u128", v.to_string())
    }
    fn record_bool(&mut self, f: &Field, v: bool) {
        self.push(f, "bool", v.to_string())
    }
    fn record_str(&mut self, f: &Field, v: &str) {
        self.push(f, "str", v.to_string())
    }
    fn record_bytes(&mut self, f: &Field, v: &[u8]) {
        self.push(f, "bytes", format!("{:?}", v))
    }
    fn record_error(&mut self, f: &Field, v: &(dyn std::error::Error + 'static)) {
        let mut s = v.to_string();
        let mut cur = v.source();
        while let Some(e) = cur {
            s.push('/');
            s.push_str(&e.to_string());
            cur = e.source();
        }
        self.push(f, "error", s)
    }
    fn record_debug(&mut self, f: &Field, v: &dyn fmt::Debug) {
        self.push(f, "debug", format!("{:?}", v))
    }
}

#[derive(Clone, Debug, PartialEq, Eq, Serialize, Deserialize)]
struct CallRec {
    kind: String,
    name: String,
    target: String,
    fields: Vec<Rec>,
}

static CALLS: Mutex<Vec<CallRec>> = Mutex::new(Vec::new());

struct K {
    stage: u8,
}

impl Collect for K {
    fn register_callsite(&self, m: &'static Metadata<'static>) -> Interest {
        let _ = m;
        match self.stage {
            0 | 4..=7 => Interest::always(),
            1 => Interest::never(),
            _ => Interest::sometimes(),
        }
    }
    fn enabled(&self, _: &Metadata<'_>) -> bool {
        self.stage != 1 && self.stage != 2
    }
    fn max_level_hint(&self) -> Option<LevelFilter> {
        // stages 4..7: the hint caps the level at ERROR, WARN, INFO, DEBUG (every boundary between
        // two adjacent levels decides whether a shorthand macro emits at its own level)
        match self.stage {
            4 => Some(LevelFilter::ERROR),
            5 => Some(LevelFilter::WARN),
            6 => Some(LevelFilter::INFO),
            7 => Some(LevelFilter::DEBUG),
            _ => None,
        }
    }
    fn new_span(&self, a: &span::Attributes<'_>) -> span::Id {
        let mut fields = vec![];
        a.record(&mut V(&mut fields));
        CALLS.lock().unwrap().push(CallRec { kind: "new_span".into(), name: a.metadata().name().into(), target: a.metadata().target().into(), fields });
        span::Id::from_u64(1)
    }
    fn record(&self, _: &span::Id, r: &span::Record<'_>) {
        let mut fields = vec![];
        r.record(&mut V(&mut fields));
        CALLS.lock().unwrap().push(CallRec { kind: "record".into(), name: String::new(), target: String::new(), fields });
    }
    fn record_follows_from(&self, _: &span::Id, _: &span::Id) {}
    fn event(&self, e: &Event<'_>) {
        let mut fields = vec![];
        e.record(&mut V(&mut fields));
        CALLS.lock().unwrap().push(CallRec { kind: "event".into(), name: e.metadata().name().into(), target: e.metadata().target().into(), fields });
    }
    fn enter(&self, _: &span::Id) {}
    fn exit(&self, _: &span::Id) {}
    fn current_span(&self) -> span::Current {
        span::Current::unknown()
    }
}

#[derive(Serialize, Deserialize, Default)]
struct StageRes {
    evals: u64,
    bad: Vec<(String, String)>,
}

fn stage_runner(job: &[u8]) -> Vec<u8> {
    let stage: u8 = job[0];
    let d = Dispatch::new(K { stage });
    let mut res = StageRes::default();
    tracing_core::dispatch::with_default(&d, || {
        // each callsite is hit twice: the first hit registers it, the second uses the cached interest
        for round in 0..2 {
            for c in CASES {
                res.evals += 1;
                CALLS.lock().unwrap().clear();
                TICKS.with(|t| t.borrow_mut().clear());
                PROBE.with(|p| *p.borrow_mut() = None);
                let r = std::panic::catch_unwind(|| (c.run)(c.arg));
                let calls = CALLS.lock().unwrap().clone();
                let ticks = TICKS.with(|t| t.borrow().clone());
                let probe = PROBE.with(|p| *p.borrow());
                let mut bad = |m: String| {
                    if res.bad.len() < 60 {
                        res.bad.push((format!("{} (stage {}, hit {})", c.name, stage, round + 1), m))
                    }
                };
                if r.is_err() {
                    bad("panic".into());
                    continue;
                }
                let enabled = match stage {
                    0 | 3 => true,
                    4..=7 => c.level <= stage - 3,
                    _ => false,
                };
                if c.kind == "enabled" {
                    if probe != Some(enabled) {
                        bad(format!("enabled! returned {:?}, the collector says {}", probe, enabled));
                    }
                    if !calls.is_empty() {
                        bad(format!("enabled! caused collector calls {:?}", calls));
                    }
                    continue;
                }
                if enabled {
                    let want_kinds: Vec<&str> = if c.kind == "event" { vec!["event"] } else if c.undeclared { vec!["new_span", "record"] } else { vec!["new_span"] };
                    let got_kinds: Vec<&str> = calls.iter().map(|x| x.kind.as_str()).collect();
                    if got_kinds != want_kinds {
                        bad(format!("collector calls {:?}, expected {:?}", got_kinds, want_kinds));
                        continue;
                    }
                    let visited: Vec<Rec> = calls.iter().flat_map(|x| x.fields.clone()).collect();
                    let want: Vec<Rec> = c.exp.iter().map(|e| Rec { name: e.name.into(), method: e.method.into(), value: e.value.into() }).collect();
                    if visited != want {
                        bad(format!("visitor saw {:?}; declared {:?}", visited.iter().map(|r| format!("{}:{}={}", r.name, r.method, r.value)).collect::<Vec<_>>(), want.iter().map(|r| format!("{}:{}={}", r.name, r.method, r.value)).collect::<Vec<_>>()));
                    }
                    let want_ticks: Vec<u32> = c.ticks.to_vec();
                    let mut t = ticks.clone();
                    t.resize(want_ticks.len(), 0);
                    if t != want_ticks {
                        bad(format!("field / message expressions were evaluated {:?} times, expected {:?}", t, want_ticks));
                    }
                } else {
                    if !calls.is_empty() {
                        bad(format!("disabled callsite caused collector calls {:?}", calls.iter().map(|x| x.kind.clone()).collect::<Vec<_>>()));
                    }
                    let evaluated: Vec<(usize, u32)> = ticks.iter().enumerate().filter(|(i, n)| **n > 0 && !(c.undeclared && *i > 0)).map(|(i, n)| (i, *n)).collect();
                    if !evaluated.is_empty() {
                        bad(format!("disabled callsite evaluated its field / message expressions: {:?}", evaluated));
                    }
                }
            }
        }
    });
    serde_json::to_vec(&res).unwrap()
}

// ---- schedule part: a racing first hit of a disabled callsite evaluates nothing --------------------------------

static RACE_TICKS: std::sync::atomic::AtomicU32 = std::sync::atomic::AtomicU32::new(0);

fn race_tick<T>(v: T) -> T {
    RACE_TICKS.fetch_add(1, std::sync::atomic::Ordering::SeqCst);
    v
}

fn race_event() {
    tracing::event!(tracing::Level::INFO, k = race_tick(1u8), "racing {}", race_tick(2));
}
fn race_span() {
    let _s = tracing::span!(tracing::Level::INFO, "racing", k = race_tick(1u8));
}

pub fn run_schedule(job: &[u8]) -> Vec<u8> {
    use mc::sched::{self, End, RunCfg};
    let job: mc::explore::SJob = serde_json::from_slice(job).unwrap();
    // scenario = "<stage>:<event|span>"
    let (stage, what) = job.scenario.split_once(':').unwrap();
    let stage: u8 = stage.parse().unwrap();
    let is_span = what == "span";
    sched::install_hooks();
    CALLS.lock().unwrap().clear();
    let d = Dispatch::new(K { stage });
    let bodies: Vec<Box<dyn FnOnce() + Send>> = (0..2)
        .map(|_| {
            let d = d.clone();
            Box::new(move || {
                let _g = tracing_core::dispatch::set_default(&d);
                if is_span {
                    race_span()
                } else {
                    race_event()
                }
            }) as Box<dyn FnOnce() + Send>
        })
        .collect();
    let trace = sched::run_threads(RunCfg { prefix: job.prefix.clone(), horizon: 3000, record_steps: job.record_steps }, bodies);
    let mut v = vec![];
    match &trace.end {
        End::Done => {}
        End::Deadlock(w) => v.push(format!("deadlock {:?}", w)),
        End::Livelock => v.push("livelock".into()),
        End::Diverged(_) => {}
    }
    for (t, m) in &trace.panics {
        v.push(format!("panic on t{}: {}", t, m));
    }
    let calls = CALLS.lock().unwrap().clone();
    let ticks = RACE_TICKS.load(std::sync::atomic::Ordering::SeqCst);
    let per = if is_span { 1 } else { 2 };
    if trace.end == End::Done {
        let enabled = stage == 0 || stage == 3;
        if enabled {
            if calls.len() != 2 || ticks != 2 * per {
                v.push(format!("two emissions at an enabled callsite: {} collector calls, {} expression evaluations (expected 2 and {})", calls.len(), ticks, 2 * per));
            }
        } else if !calls.is_empty() || ticks != 0 {
            v.push(format!("racing first hits of a disabled callsite: {} deliveries, {} field/message expression evaluations (expected none)", calls.len(), ticks));
        }
    }
    let obs = format!("{}:{}", calls.len(), ticks);
    serde_json::to_vec(&mc::explore::SResult { trace: Some(trace), violations: v, known: vec![], obs, conflicts: vec![] }).unwrap()
}

pub fn run(args: &Args) -> i32 {
    let mut rep = Report::new(args, "exploration");
    if let Some(p) = &args.replay {
        let v: serde_json::Value = serde_json::from_str(&std::fs::read_to_string(p).expect("read replay")).expect("json");
        if v["case"].get("prefix").is_some() {
            let mut job: mc::explore::SJob = serde_json::from_value(v["case"].clone()).unwrap();
            job.record_steps = true;
            let bad = match run_isolated(run_schedule, &serde_json::to_vec(&job).unwrap(), Duration::from_secs(30)) {
                Outcome::Ok(b) => serde_json::from_slice::<mc::explore::SResult>(&b).unwrap().violations,
                o => vec![format!("child {:?}", o)],
            };
            for x in &bad {
                println!("VIOLATION property={} replay={} :: {}", args.property, p, x);
            }
            return i32::from(!bad.is_empty());
        }
        // sequential cases are cheap: a replay re-runs the whole corpus (filter by the case name)
        println!("replaying the corpus; the case of interest is {}", v["case"]["case"]);
    }
    let mut evals = 0u64;
    let mut distinct = BTreeSet::new();
    for stage in 0..8u8 {
        match run_isolated(stage_runner, &[stage], Duration::from_secs(120)) {
            Outcome::Ok(b) => {
                let r: StageRes = serde_json::from_slice(&b).unwrap();
                evals += r.evals;
                for (case, msg) in r.bad {
                    rep.violation(format!("{}: {}", case, msg), json!({"case": case}));
                }
            }
            o => rep.violation(format!("stage {} crashed: {:?}", stage, o), json!({"stage": stage})),
        }
        for c in CASES {
            distinct.insert((c.name, stage));
        }
    }
    // compile-time maximum level stage: a separate binary built with tracing's `max_level_info`
    let exe = std::env::current_exe().ok().and_then(|p| p.parent().map(|d| d.join("h_static")));
    let mut static_evals = 0u64;
    match exe.filter(|p| p.exists()).map(|p| std::process::Command::new(p).output()) {
        Some(Ok(o)) if o.status.success() => {
            let v: serde_json::Value = serde_json::from_slice(&o.stdout).unwrap_or(json!({"evals": 0, "bad": ["unreadable output"]}));
            static_evals = v["evals"].as_u64().unwrap_or(0);
            for b in v["bad"].as_array().cloned().unwrap_or_default() {
                rep.violation(format!("[compile-time max level] {}", b.as_str().unwrap_or("")), json!({"case": "h_static"}));
            }
        }
        Some(Ok(o)) => rep.violation(format!("[compile-time max level] the h_static binary crashed: {:?}", o.status), json!({"case": "h_static"})),
        _ => rep.machinery_error("h_static binary not found next to h_span"),
    }
    evals += static_evals;
    rep.cov("compile_time_cap_evaluations", static_evals);
    // schedule part
    let mut pool = mc::pool::Pool::new(mc::pool::default_workers(), run_schedule, true, Duration::from_secs(30));
    let bound = args.tier.pick(2, 4);
    let mut schedules = 0u64;
    let mut capped = false;
    for stage in 0..4u8 {
        for what in ["event", "span"] {
            let mut st = mc::explore::Stats::default();
            let cfg = mc::explore::ExploreCfg { bound, deadline: std::time::Instant::now() + Duration::from_secs(args.tier.pick(5, 60)), max_schedules: u64::MAX, stop_on_violation: true };
            mc::explore::explore(&mut pool, &format!("{}:{}", stage, what), &cfg, &mut st);
            schedules += st.schedules;
            capped |= st.capped;
            for m in st.machinery {
                rep.machinery_error(m);
            }
            for (w, job) in st.violations.iter().take(2) {
                rep.violation(format!("[stage {} {} first-hit race] {}", stage, what, w), serde_json::to_value(job).unwrap());
            }
        }
    }
    rep.cov("schedules", schedules);
    rep.cov("preemption_bound", bound as u64);
    rep.cov("schedule_bound_completed", !capped);
    rep.cov("evaluations", evals + schedules);
    rep.cov("distinct_nontrivial", distinct.len() as u64 + schedules);
    rep.cov("callsites", CASES.len() as u64);
    rep.cov("stages", 8u64);
    rep.cov("exhaustive", true);
    rep.cov("rule", "generated corpus: {event!, trace!..error!} x 8 prefix forms (none, target:, parent:, name:, combinations) x 16 field-list shapes (braced field lists followed by a message, k = v, format message with args and captures, % and ? sigils, shorthand, dotted names, dotted shorthand, string-literal and r# names, Empty, trailing comma) + {span!, trace_span!..error_span!} x 4 prefix forms x the message-free shapes + every Value type (all integer widths, NonZero*, Wrapping, f32/f64 incl. NaN/inf/-0, bool, str/String incl. empty/astral/RTL/NUL, bytes, error chains, Display/Debug wrappers, references, Box, format_args) with boundary values in events and spans + Span::record of declared and undeclared fields + enabled!; every callsite is hit twice (first hit, cached interest) under 8 collector stages (enabled / static never / dynamic false / dynamic true / level hint capped at ERROR, WARN, INFO, DEBUG), each stage in a fresh process. A case is distinct by (callsite, stage).");
    rep.sample(json!({"callsite": CASES[CASES.len() / 2].name, "expected": CASES[CASES.len() / 2].exp.iter().map(|e| format!("{}:{}={}", e.name, e.method, e.value)).collect::<Vec<_>>()}));
    rep.sample(json!({"callsite": CASES[3].name, "expected": CASES[3].exp.iter().map(|e| format!("{}:{}={}", e.name, e.method, e.value)).collect::<Vec<_>>()}));
    rep.assume("the compile-time maximum level stage is exercised by a separate binary (engine/h_static, tracing feature max_level_info) on 5 levels x {event, span, enabled!} x 2 collector modes x 2 hits");
    rep.assume("the argument of Span::record is an ordinary function argument and is evaluated even when the span is disabled; only macro field/message expressions are counted");
    rep.finish()
}
