//! C03 — span handles drive their collector through a well-formed, balanced protocol.
//! Engine H: breadth-first search over programs on the Span API (handles, guards, in_scope,
//! record, follows_from, Span::current, or_current, Instrumented futures of tracing and
//! tracing-futures, handles used on two threads, three kinds of thread default), each program
//! executed on fresh OS threads against two recording collectors; the call log of every step is
//! compared with a handle/guard model.
use mc::pool::{Outcome, Pool};
use mc::{Args, Report};
use serde::{Deserialize, Serialize};
use serde_json::json;
use std::collections::{BTreeMap, HashSet};
use std::future::Future;
use std::pin::Pin;
use std::sync::atomic::{AtomicU64, Ordering};
use std::sync::Mutex;
use std::task::{Context, Poll, RawWaker, RawWakerVTable, Waker};
use std::time::Duration;
use tracing::instrument::Instrument as _;
use tracing::Span;
use tracing_core::{span, Collect, Dispatch, Event, Interest, LevelFilter, Metadata};

// ---- recording collectors ---------------------------------------------------------------------------------

#[derive(Clone, Debug, PartialEq, Eq, Serialize, Deserialize)]
pub struct Call {
    /// 0 = own, 1 = other
    pub k: u8,
    pub kind: String,
    pub id: u64,
    pub arg: u64,
    pub tid: i32,
}

static LOG: Mutex<Vec<Call>> = Mutex::new(Vec::new());
thread_local! {
    static TID: std::cell::Cell<i32> = const { std::cell::Cell::new(-1) };
    /// per collector, this thread's stack of entered ids (for current_span)
    static ENTERED: std::cell::RefCell<[Vec<u64>; 2]> = const { std::cell::RefCell::new([Vec::new(), Vec::new()]) };
}

fn log(k: u8, kind: &str, id: u64, arg: u64) {
    LOG.lock().unwrap_or_else(|e| e.into_inner()).push(Call { k, kind: kind.into(), id, arg, tid: TID.with(|t| t.get()) });
}
fn log_len() -> usize {
    LOG.lock().unwrap_or_else(|e| e.into_inner()).len()
}
fn log_since(n: usize) -> Vec<Call> {
    LOG.lock().unwrap_or_else(|e| e.into_inner())[n..].to_vec()
}
fn log_clear() {
    LOG.lock().unwrap_or_else(|e| e.into_inner()).clear()
}

struct K {
    k: u8,
    next: AtomicU64,
    metas: Mutex<BTreeMap<u64, &'static Metadata<'static>>>,
}

impl K {
    fn accepts(&self, m: &Metadata<'_>) -> bool {
        // own collector: everything except the callsite named "dis"; other collector: everything
        self.k == 1 || m.name() != "dis"
    }
}

impl Collect for K {
    fn register_callsite(&self, m: &'static Metadata<'static>) -> Interest {
        if self.accepts(m) {
            Interest::always()
        } else {
            Interest::never()
        }
    }
    fn enabled(&self, m: &Metadata<'_>) -> bool {
        self.accepts(m)
    }
    fn max_level_hint(&self) -> Option<LevelFilter> {
        None
    }
    fn new_span(&self, a: &span::Attributes<'_>) -> span::Id {
        let id = ((self.k as u64 + 1) << 32) | self.next.fetch_add(1, Ordering::SeqCst);
        self.metas.lock().unwrap().insert(id, a.metadata());
        let parent = if a.is_root() {
            0
        } else if a.is_contextual() {
            u64::MAX
        } else {
            a.parent().map_or(0, |p| p.into_u64())
        };
        log(self.k, "new_span", id, parent);
        span::Id::from_u64(id)
    }
    fn record(&self, id: &span::Id, _: &span::Record<'_>) {
        log(self.k, "record", id.into_u64(), 0);
    }
    fn record_follows_from(&self, id: &span::Id, f: &span::Id) {
        log(self.k, "follows_from", id.into_u64(), f.into_u64());
    }
    fn event(&self, e: &Event<'_>) {
        // marker events emitted by instrumented futures: arg = current span of this thread
        let cur = ENTERED.with(|s| s.borrow()[self.k as usize].last().copied().unwrap_or(0));
        let code = match e.metadata().name() {
            "poll_marker" => 1,
            "drop_marker" => 2,
            _ => 3,
        };
        log(self.k, "event", cur, code);
    }
    fn enter(&self, id: &span::Id) {
        ENTERED.with(|s| s.borrow_mut()[self.k as usize].push(id.into_u64()));
        log(self.k, "enter", id.into_u64(), 0);
    }
    fn exit(&self, id: &span::Id) {
        ENTERED.with(|s| {
            let mut s = s.borrow_mut();
            if let Some(p) = s[self.k as usize].iter().rposition(|x| *x == id.into_u64()) {
                s[self.k as usize].remove(p);
            }
        });
        log(self.k, "exit", id.into_u64(), 0);
    }
    fn clone_span(&self, id: &span::Id) -> span::Id {
        log(self.k, "clone_span", id.into_u64(), 0);
        id.clone()
    }
    fn try_close(&self, id: span::Id) -> bool {
        log(self.k, "try_close", id.into_u64(), 0);
        false
    }
    fn current_span(&self) -> span::Current {
        let cur = ENTERED.with(|s| s.borrow()[self.k as usize].last().copied());
        match cur {
            Some(id) => match self.metas.lock().unwrap().get(&id) {
                Some(m) => span::Current::new(span::Id::from_u64(id), m),
                None => span::Current::none(),
            },
            None => span::Current::none(),
        }
    }
}

// ---- subject objects ------------------------------------------------------------------------------------------

struct Fut {
    polls_left: u8,
}
impl Future for Fut {
    type Output = ();
    fn poll(mut self: Pin<&mut Self>, _: &mut Context<'_>) -> Poll<()> {
        tracing::event!(name: "poll_marker", tracing::Level::INFO, "p");
        if self.polls_left == 0 {
            Poll::Ready(())
        } else {
            self.polls_left -= 1;
            Poll::Pending
        }
    }
}
impl Drop for Fut {
    fn drop(&mut self) {
        tracing::event!(name: "drop_marker", tracing::Level::INFO, "d");
    }
}

enum AnyFut {
    T(tracing::instrument::Instrumented<Fut>),
    F(tracing_futures::Instrumented<Fut>),
}

fn noop_waker() -> Waker {
    fn clone(_: *const ()) -> RawWaker {
        RawWaker::new(std::ptr::null(), &VT)
    }
    fn noop(_: *const ()) {}
    static VT: RawWakerVTable = RawWakerVTable::new(clone, noop, noop, noop);
    unsafe { Waker::from_raw(RawWaker::new(std::ptr::null(), &VT)) }
}

fn make_span(cs: u8, parent: &str, pid: Option<span::Id>) -> Span {
    macro_rules! mk {
        ($name:literal) => {
            match (parent, pid) {
                ("root", _) => tracing::span!(parent: None, tracing::Level::INFO, $name, f = tracing::field::Empty),
                ("of", Some(id)) => tracing::span!(parent: &id, tracing::Level::INFO, $name, f = tracing::field::Empty),
                _ => tracing::span!(tracing::Level::INFO, $name, f = tracing::field::Empty),
            }
        };
    }
    match cs {
        0 => mk!("s0"),
        1 => mk!("s1"),
        _ => mk!("dis"),
    }
}

// raw handle storage shared between the two worker threads (the model guarantees exclusive use)
struct Shared {
    handles: Vec<Option<*mut Span>>,
    entered_handles: Vec<Option<tracing::span::EnteredSpan>>,
    futs: Vec<Option<Box<AnyFut>>>,
}
unsafe impl Send for Shared {}

enum Cmd {
    Run(Box<dyn FnOnce(&mut Vec<(usize, tracing::span::Entered<'static>)>) + Send>),
    Quit,
}

struct Worker {
    tx: std::sync::mpsc::Sender<Cmd>,
    rx: std::sync::mpsc::Receiver<Option<String>>,
    handle: Option<std::thread::JoinHandle<()>>,
}

fn spawn_worker(t: i32) -> Worker {
    let (ctx, crx) = std::sync::mpsc::channel::<Cmd>();
    let (rtx, rrx) = std::sync::mpsc::channel::<Option<String>>();
    let handle = std::thread::spawn(move || {
        TID.with(|x| x.set(t));
        // borrowed guards live on the thread that created them
        let mut guards: Vec<(usize, tracing::span::Entered<'static>)> = vec![];
        while let Ok(Cmd::Run(f)) = crx.recv() {
            let r = std::panic::catch_unwind(std::panic::AssertUnwindSafe(|| f(&mut guards)));
            let msg = r.err().map(|e| e.downcast_ref::<String>().cloned().or_else(|| e.downcast_ref::<&str>().map(|s| s.to_string())).unwrap_or_default());
            if rtx.send(msg).is_err() {
                break;
            }
        }
        while let Some(g) = guards.pop() {
            drop(g);
        }
    });
    Worker { tx: ctx, rx: rrx, handle: Some(handle) }
}

// ---- model -------------------------------------------------------------------------------------------------------

const WILD: u64 = u64::MAX - 1;

#[derive(Clone, Debug, PartialEq, Eq, Hash)]
enum HState {
    Plain,
    /// converted into an EnteredSpan on thread t
    Entered(usize),
    /// moved into future f
    InFut(usize),
}

#[derive(Clone, Debug, PartialEq, Eq, Hash)]
struct MHandle {
    span: Option<usize>, // None = disabled / none span
    state: HState,
    /// created while the thread had no default collector: the handle belongs to the no-op
    /// collector and carries its placeholder id
    no_collector: bool,
}

#[derive(Clone, Debug, PartialEq, Eq, Hash)]
struct MSpan {
    id: u64,
    k: u8,
    closes: usize,
    handles_ever: usize,
}

#[derive(Clone, Debug, PartialEq, Eq, Hash)]
struct MFut {
    handle: usize,
    kind: u8,
    polls_left: u8,
    done: bool,
}

#[derive(Clone, Debug, Serialize, Deserialize)]
pub struct Cfg {
    pub depth: usize,
    pub max_handles: usize,
    pub threads: usize,
    pub defaults: bool,
    pub futures: bool,
    /// how the collector is handed to the Dispatch: 0 as itself, 1 `Arc<K>`, 2 `Box<K>`,
    /// 3 `Arc<dyn Collect + Send + Sync>` (the forwarding impls are part of the handle path)
    #[serde(default)]
    pub wrap: u8,
}

#[derive(Clone, Debug, Serialize, Deserialize, Default)]
pub struct Res {
    pub states: u64,
    pub transitions: u64,
    pub violations: Vec<(Vec<String>, String)>,
    pub sample: Vec<String>,
    pub outcomes: u64,
}

struct Out {
    key: String,
    next: Vec<String>,
    violations: Vec<String>,
}

fn run_history(cfg: &Cfg, history: &[String]) -> Out {
    log_clear();
    let mk = |k: u8| K { k, next: AtomicU64::new(1), metas: Mutex::new(BTreeMap::new()) };
    let wrapd = |k: u8| -> Dispatch {
        match cfg.wrap {
            1 => Dispatch::new(std::sync::Arc::new(mk(k))),
            2 => Dispatch::new(Box::new(mk(k))),
            3 => {
                let a: std::sync::Arc<dyn tracing_core::Collect + Send + Sync> = std::sync::Arc::new(mk(k));
                Dispatch::new(a)
            }
            _ => Dispatch::new(mk(k)),
        }
    };
    let own = wrapd(0);
    let other = wrapd(1);
    let shared = std::sync::Arc::new(Mutex::new(Shared { handles: vec![None; cfg.max_handles + 2], entered_handles: (0..cfg.max_handles + 2).map(|_| None).collect(), futs: vec![None, None] }));
    let mut workers: Vec<Worker> = (0..cfg.threads).map(|t| spawn_worker(t as i32)).collect();
    // thread defaults: 0 own, 1 other, 2 none
    let mut defs = vec![0u8; cfg.threads];
    let mut dguards: Vec<std::sync::Arc<Mutex<Option<tracing_core::dispatch::DefaultGuard>>>> = vec![];
    let call = |w: &Worker, f: Box<dyn FnOnce(&mut Vec<(usize, tracing::span::Entered<'static>)>) + Send>| -> Option<String> {
        w.tx.send(Cmd::Run(f)).unwrap();
        w.rx.recv().unwrap_or(Some("worker died".into()))
    };
    for t in 0..cfg.threads {
        let d = own.clone();
        let slot = std::sync::Arc::new(Mutex::new(None));
        let s2 = slot.clone();
        // DefaultGuard is !Send: it is created, held and dropped on the worker thread via a
        // thread-local in the closure environment
        call(&workers[t], Box::new(move |_| {
            DEFGUARD.with(|g| *g.borrow_mut() = Some(tracing_core::dispatch::set_default(&d)));
            let _ = s2;
        }));
        dguards.push(slot);
    }
    let mut handles: Vec<Option<MHandle>> = vec![None; cfg.max_handles + 2];
    let mut spans: Vec<MSpan> = vec![];
    // borrowed guards per thread: (handle index, span index)
    let mut guards: Vec<Vec<(usize, usize)>> = vec![vec![]; cfg.threads];
    let mut futs: Vec<Option<MFut>> = vec![None, None];
    let mut out = Out { key: String::new(), next: vec![], violations: vec![] };

    for (step, op) in history.iter().enumerate() {
        let p: Vec<&str> = op.split(':').collect();
        let t: usize = p[1].parse().unwrap();
        let n0 = log_len();
        let mut expect: Vec<(u8, String, u64, Option<u64>)> = vec![]; // (collector, kind, id, arg)
        let span_of = |h: usize, handles: &Vec<Option<MHandle>>| -> Option<usize> { handles[h].as_ref().and_then(|x| x.span) };
        let mut new_span_slot: Option<(usize, u8, u8)> = None; // (handle, callsite, expected collector)
        let panic_msg: Option<String>;
        let sh = shared.clone();
        let cur_default = defs[t];
        match p[0] {
            "def" => {
                let d: u8 = p[2].parse().unwrap();
                let disp = match d {
                    0 => Some(own.clone()),
                    1 => Some(other.clone()),
                    _ => None,
                };
                panic_msg = call(&workers[t], Box::new(move |_| {
                    DEFGUARD.with(|g| {
                        let old = g.borrow_mut().take();
                        drop(old);
                        *g.borrow_mut() = Some(tracing_core::dispatch::set_default(&disp.unwrap_or_else(Dispatch::none)));
                    })
                }));
                defs[t] = d;
            }
            "new" => {
                let h: usize = p[2].parse().unwrap();
                let cs: u8 = p[3].parse().unwrap();
                let parent = p[4].to_string();
                let ph: Option<usize> = p.get(5).map(|x| x.parse().unwrap());
                let pid = ph.and_then(|ph| span_of(ph, &handles)).map(|si| span::Id::from_u64(spans[si].id));
                let enabled = match cur_default {
                    0 => cs != 2,
                    1 => true,
                    _ => false,
                };
                if enabled {
                    new_span_slot = Some((h, cs, cur_default));
                    expect.push((cur_default, "new_span".into(), 0, None));
                }
                handles[h] = Some(MHandle { span: None, state: HState::Plain, no_collector: cur_default == 2 });
                panic_msg = call(&workers[t], Box::new(move |_| {
                    let s = make_span(cs, &parent, pid);
                    sh.lock().unwrap().handles[h] = Some(Box::into_raw(Box::new(s)));
                }));
            }
            "clone" => {
                let (h, h2): (usize, usize) = (p[2].parse().unwrap(), p[3].parse().unwrap());
                if let Some(si) = span_of(h, &handles) {
                    expect.push((spans[si].k, "clone_span".into(), spans[si].id, None));
                    spans[si].handles_ever += 1;
                }
                handles[h2] = Some(MHandle { span: span_of(h, &handles), state: HState::Plain, no_collector: handles[h].as_ref().map_or(false, |x| x.no_collector) });
                panic_msg = call(&workers[t], Box::new(move |_| {
                    let mut g = sh.lock().unwrap();
                    let src = g.handles[h].unwrap();
                    let c = unsafe { (*src).clone() };
                    g.handles[h2] = Some(Box::into_raw(Box::new(c)));
                }));
            }
            "drop" | "dropunwind" => {
                let h: usize = p[2].parse().unwrap();
                let unwinding = p[0] == "dropunwind";
                if let Some(si) = span_of(h, &handles) {
                    expect.push((spans[si].k, "try_close".into(), spans[si].id, None));
                    spans[si].closes += 1;
                }
                handles[h] = None;
                panic_msg = call(&workers[t], Box::new(move |_| {
                    let ptr = sh.lock().unwrap().handles[h].take().unwrap();
                    let owned = unsafe { Box::from_raw(ptr) };
                    if unwinding {
                        // the handle is a local of a frame that unwinds (the panic is caught above it)
                        let r = std::panic::catch_unwind(std::panic::AssertUnwindSafe(move || {
                            let _local = owned;
                            std::panic::resume_unwind(Box::new("scripted"))
                        }));
                        assert!(r.is_err());
                    } else {
                        drop(owned);
                    }
                }));
            }
            "enter" => {
                let h: usize = p[2].parse().unwrap();
                if let Some(si) = span_of(h, &handles) {
                    expect.push((spans[si].k, "enter".into(), spans[si].id, None));
                    guards[t].push((h, si));
                } else {
                    guards[t].push((h, usize::MAX));
                }
                panic_msg = call(&workers[t], Box::new(move |gs| {
                    let ptr = sh.lock().unwrap().handles[h].unwrap();
                    let g: tracing::span::Entered<'static> = unsafe { (&*ptr).enter() };
                    gs.push((h, g));
                }));
            }
            "gdrop" => {
                // drop the i-th live guard of this thread (any order)
                let i: usize = p[2].parse().unwrap();
                let (_, si) = guards[t].remove(i);
                if si != usize::MAX {
                    expect.push((spans[si].k, "exit".into(), spans[si].id, None));
                }
                panic_msg = call(&workers[t], Box::new(move |gs| {
                    let g = gs.remove(i);
                    drop(g);
                }));
            }
            "entered" => {
                let h: usize = p[2].parse().unwrap();
                if let Some(si) = span_of(h, &handles) {
                    expect.push((spans[si].k, "enter".into(), spans[si].id, None));
                }
                handles[h].as_mut().unwrap().state = HState::Entered(t);
                panic_msg = call(&workers[t], Box::new(move |_| {
                    let mut g = sh.lock().unwrap();
                    let ptr = g.handles[h].take().unwrap();
                    let s = *unsafe { Box::from_raw(ptr) };
                    g.entered_handles[h] = Some(s.entered());
                }));
            }
            "exit" => {
                let h: usize = p[2].parse().unwrap();
                if let Some(si) = span_of(h, &handles) {
                    expect.push((spans[si].k, "exit".into(), spans[si].id, None));
                }
                handles[h].as_mut().unwrap().state = HState::Plain;
                panic_msg = call(&workers[t], Box::new(move |_| {
                    let mut g = sh.lock().unwrap();
                    let e = g.entered_handles[h].take().unwrap();
                    let s = e.exit();
                    g.handles[h] = Some(Box::into_raw(Box::new(s)));
                }));
            }
            "edrop" => {
                let h: usize = p[2].parse().unwrap();
                if let Some(si) = span_of(h, &handles) {
                    expect.push((spans[si].k, "exit".into(), spans[si].id, None));
                    expect.push((spans[si].k, "try_close".into(), spans[si].id, None));
                    spans[si].closes += 1;
                }
                handles[h] = None;
                panic_msg = call(&workers[t], Box::new(move |_| {
                    let e = sh.lock().unwrap().entered_handles[h].take().unwrap();
                    drop(e);
                }));
            }
            "inscope" | "inscopepanic" | "inscopedisp" => {
                let h: usize = p[2].parse().unwrap();
                let boom = p[0] == "inscopepanic";
                let in_dispatch = p[0] == "inscopedisp";
                if let Some(si) = span_of(h, &handles) {
                    expect.push((spans[si].k, "enter".into(), spans[si].id, None));
                    expect.push((spans[si].k, "exit".into(), spans[si].id, None));
                }
                panic_msg = call(&workers[t], Box::new(move |_| {
                    let ptr = sh.lock().unwrap().handles[h].unwrap();
                    let s: &Span = unsafe { &*ptr };
                    if boom {
                        let r = std::panic::catch_unwind(std::panic::AssertUnwindSafe(|| s.in_scope(|| std::panic::resume_unwind(Box::new("scripted")))));
                        assert!(r.is_err());
                    } else if in_dispatch {
                        // entered from code that runs while the thread's default is being consulted
                        // (e.g. a Debug impl formatted by a collector)
                        tracing::dispatch::get_default(|_| s.in_scope(|| ()));
                    } else {
                        s.in_scope(|| ());
                    }
                }));
            }
            "record" => {
                let h: usize = p[2].parse().unwrap();
                if let Some(si) = span_of(h, &handles) {
                    expect.push((spans[si].k, "record".into(), spans[si].id, None));
                }
                panic_msg = call(&workers[t], Box::new(move |_| {
                    let ptr = sh.lock().unwrap().handles[h].unwrap();
                    unsafe { (*ptr).record("f", 1) };
                }));
            }
            "follows" => {
                let (h, h2): (usize, usize) = (p[2].parse().unwrap(), p[3].parse().unwrap());
                if let (Some(a), Some(b)) = (span_of(h, &handles), span_of(h2, &handles)) {
                    expect.push((spans[a].k, "follows_from".into(), spans[a].id, Some(spans[b].id)));
                }
                panic_msg = call(&workers[t], Box::new(move |_| {
                    let g = sh.lock().unwrap();
                    let (a, b) = (g.handles[h].unwrap(), g.handles[h2].unwrap());
                    drop(g);
                    unsafe { (*a).follows_from(&*b) };
                }));
            }
            "current" | "orcurrent" => {
                // Span::current() / disabled.or_current(): a new handle to the thread's current span
                // as the thread's DEFAULT collector knows it
                let h2: usize = p[2].parse().unwrap();
                let cur = if cur_default < 2 {
                    // the default collector's own idea of the current span of this thread: the most
                    // recently entered span of that collector on this thread
                    let mut entered: Vec<usize> = guards[t].iter().map(|g| g.1).filter(|s| *s != usize::MAX).collect();
                    for (hi, hh) in handles.iter().enumerate() {
                        if let Some(MHandle { span: Some(si), state: HState::Entered(tt), .. }) = hh {
                            if *tt == t {
                                let _ = hi;
                                entered.push(*si);
                            }
                        }
                    }
                    // order of entry matters: reconstruct from the implementation-independent
                    // harness order (guards then entered handles is not the true order), so the
                    // alphabet only offers `current` when at most one span of the default
                    // collector is entered on this thread
                    let mine: Vec<usize> = entered.into_iter().filter(|si| spans[*si].k == cur_default).collect();
                    mine.last().copied()
                } else {
                    None
                };
                if let Some(si) = cur {
                    expect.push((spans[si].k, "clone_span".into(), spans[si].id, None));
                    spans[si].handles_ever += 1;
                }
                handles[h2] = Some(MHandle { span: cur, state: HState::Plain, no_collector: cur_default == 2 });
                let orc = p[0] == "orcurrent";
                panic_msg = call(&workers[t], Box::new(move |_| {
                    let s = if orc { Span::none().or_current() } else { Span::current() };
                    sh.lock().unwrap().handles[h2] = Some(Box::into_raw(Box::new(s)));
                }));
            }
            "mkfut" => {
                let (h, f, kind, polls): (usize, usize, u8, u8) = (p[2].parse().unwrap(), p[3].parse().unwrap(), p[4].parse().unwrap(), p[5].parse().unwrap());
                handles[h].as_mut().unwrap().state = HState::InFut(f);
                futs[f] = Some(MFut { handle: h, kind, polls_left: polls, done: false });
                panic_msg = call(&workers[t], Box::new(move |_| {
                    let mut g = sh.lock().unwrap();
                    let ptr = g.handles[h].take().unwrap();
                    let s = *unsafe { Box::from_raw(ptr) };
                    let fut = Fut { polls_left: polls };
                    g.futs[f] = Some(Box::new(if kind == 0 { AnyFut::T(fut.instrument(s)) } else { AnyFut::F(tracing_futures::Instrument::instrument(fut, s)) }));
                }));
            }
            "poll" => {
                let f: usize = p[2].parse().unwrap();
                let mf = futs[f].clone().unwrap();
                let si = span_of(mf.handle, &handles);
                if let Some(si) = si {
                    expect.push((spans[si].k, "enter".into(), spans[si].id, None));
                }
                // the body's marker event goes to the thread default; it must see the span as current
                // when the span belongs to that default collector
                if cur_default < 2 {
                    let cur = match si {
                        Some(si) if spans[si].k == cur_default => Some(spans[si].id),
                        _ => None,
                    };
                    expect.push((cur_default, "event".into(), cur.unwrap_or(WILD), Some(1)));
                }
                if let Some(si) = si {
                    expect.push((spans[si].k, "exit".into(), spans[si].id, None));
                }
                let m = futs[f].as_mut().unwrap();
                if m.polls_left == 0 {
                    m.done = true;
                } else {
                    m.polls_left -= 1;
                }
                panic_msg = call(&workers[t], Box::new(move |_| {
                    let mut fut = sh.lock().unwrap().futs[f].take().unwrap();
                    let w = noop_waker();
                    let mut cx = Context::from_waker(&w);
                    let _ = match &mut *fut {
                        AnyFut::T(x) => unsafe { Pin::new_unchecked(x) }.poll(&mut cx),
                        AnyFut::F(x) => unsafe { Pin::new_unchecked(x) }.poll(&mut cx),
                    };
                    sh.lock().unwrap().futs[f] = Some(fut);
                }));
            }
            "dropfut" | "intoinner" => {
                let f: usize = p[2].parse().unwrap();
                let mf = futs[f].take().unwrap();
                let si = span_of(mf.handle, &handles);
                let into = p[0] == "intoinner";
                if !into {
                    // Instrumented enters the span to drop the inner future
                    if let Some(si) = si {
                        expect.push((spans[si].k, "enter".into(), spans[si].id, None));
                    }
                    if cur_default < 2 {
                        let cur = match si {
                            Some(si) if spans[si].k == cur_default => Some(spans[si].id),
                            _ => None,
                        };
                        expect.push((cur_default, "event".into(), cur.unwrap_or(WILD), Some(2)));
                    }
                    if let Some(si) = si {
                        expect.push((spans[si].k, "exit".into(), spans[si].id, None));
                    }
                }
                if let Some(si) = si {
                    // the handle owned by the wrapper is dropped: one close notification
                    expect.push((spans[si].k, "try_close".into(), spans[si].id, None));
                    spans[si].closes += 1;
                }
                if into && cur_default < 2 {
                    // the inner future is handed back and dropped by the harness outside any span
                    expect.push((cur_default, "event".into(), WILD, Some(2)));
                }
                handles[mf.handle] = None;
                panic_msg = call(&workers[t], Box::new(move |_| {
                    let fut = sh.lock().unwrap().futs[f].take().unwrap();
                    if into {
                        let inner = match *fut {
                            AnyFut::T(x) => x.into_inner(),
                            AnyFut::F(x) => x.into_inner(),
                        };
                        drop(inner);
                    } else {
                        drop(fut);
                    }
                }));
            }
            _ => panic!("bad op {}", op),
        }
        let got = log_since(n0);
        let mut fail = |m: String| out.violations.push(format!("step {} ({}): {}", step, op, m));
        if let Some(m) = &panic_msg {
            fail(format!("panic: {}", m));
        }
        // bind the id of a newly created span
        if let Some((h, _cs, k)) = new_span_slot {
            match got.iter().find(|c| c.kind == "new_span" && c.k == k) {
                Some(c) => {
                    spans.push(MSpan { id: c.id, k, closes: 0, handles_ever: 1 });
                    handles[h].as_mut().unwrap().span = Some(spans.len() - 1);
                    if let Some(e) = expect.iter_mut().find(|e| e.1 == "new_span") {
                        e.2 = c.id;
                    }
                    // parent kind as seen by the collector
                    let want_parent = match p[4] {
                        "root" => Some(0u64),
                        "ctx" => Some(u64::MAX),
                        _ => None,
                    };
                    if let Some(wp) = want_parent {
                        if c.arg != wp {
                            fail(format!("new span created as {:?} reached the collector with parent marker {}", p[4], c.arg));
                        }
                    }
                }
                None => fail("an enabled span!() produced no new_span call on the thread's default collector".into()),
            }
        }
        // compare (collector calls only; `event` current-span argument u64::MAX = none)
        let norm_got: Vec<(u8, String, u64, Option<u64>)> = got
            .iter()
            .map(|c| {
                let arg = match c.kind.as_str() {
                    "follows_from" => Some(c.arg),
                    "event" => Some(c.arg),
                    _ => None,
                };
                let id = if c.kind == "event" && c.id == 0 { u64::MAX } else { c.id };
                (c.k, c.kind.clone(), id, arg)
            })
            .collect();
        let norm_exp: Vec<(u8, String, u64, Option<u64>)> = expect.clone();
        // a marker event whose wrapper span does not belong to the thread's default collector may
        // see any other entered span as current: that position is not compared
        let norm_got: Vec<(u8, String, u64, Option<u64>)> = norm_got
            .into_iter()
            .enumerate()
            .map(|(i, g)| match norm_exp.get(i) {
                Some(e) if e.1 == "event" && e.2 == WILD && g.1 == "event" => (g.0, g.1, WILD, g.3),
                _ => g,
            })
            .collect();
        if norm_got != norm_exp {
            fail(format!("collector calls {:?}; the handle model expects {:?} (k: 0 own, 1 other)", norm_got, norm_exp));
        }
        if got.iter().any(|c| c.tid != t as i32) {
            fail("a collector was called on another thread than the one performing the operation".into());
        }
        // nothing after the last handle's close notification
        for s in &spans {
            if s.closes > s.handles_ever {
                fail(format!("span {} received {} close notifications for {} handles", s.id, s.closes, s.handles_ever));
            }
        }
        if !out.violations.is_empty() {
            break;
        }
    }
    // key + enabled ops
    out.key = format!("{:?}|{:?}|{:?}|{:?}|{:?}", handles, spans.iter().map(|s| (s.k, s.closes, s.handles_ever)).collect::<Vec<_>>(), guards, futs, defs);
    let live_plain: Vec<usize> = handles.iter().enumerate().filter(|(_, h)| matches!(h, Some(MHandle { state: HState::Plain, .. }))).map(|(i, _)| i).collect();
    let free: Option<usize> = (0..cfg.max_handles).find(|i| handles[*i].is_none());
    let borrowed = |h: usize| guards.iter().any(|g| g.iter().any(|x| x.0 == h));
    let mut next = vec![];
    for t in 0..cfg.threads {
        for &h in &live_plain {
            next.push(format!("enter:{}:{}", t, h));
            next.push(format!("record:{}:{}", t, h));
            next.push(format!("inscope:{}:{}", t, h));
            next.push(format!("inscopepanic:{}:{}", t, h));
            next.push(format!("inscopedisp:{}:{}", t, h));
            if !borrowed(h) {
                next.push(format!("drop:{}:{}", t, h));
                next.push(format!("dropunwind:{}:{}", t, h));
                next.push(format!("entered:{}:{}", t, h));
                if cfg.futures {
                    if let Some(f) = (0..2).find(|f| futs[*f].is_none()) {
                        for kind in [0u8, 1] {
                            for polls in [0u8, 1] {
                                next.push(format!("mkfut:{}:{}:{}:{}:{}", t, h, f, kind, polls));
                            }
                        }
                    }
                }
            }
            if let Some(fr) = free {
                next.push(format!("clone:{}:{}:{}", t, h, fr));
            }
            for &h2 in &live_plain {
                // follows_from between spans of different collectors hands one collector an id it
                // never issued; the property does not speak about that, so it is not in the alphabet
                let (a, b) = (handles[h].as_ref().unwrap(), handles[h2].as_ref().unwrap());
                let same = match (a.span, b.span) {
                    (Some(x), Some(y)) => spans[x].k == spans[y].k,
                    _ => !a.no_collector && !b.no_collector,
                };
                if h2 != h && same {
                    next.push(format!("follows:{}:{}:{}", t, h, h2));
                }
            }
        }
        for i in 0..guards[t].len() {
            next.push(format!("gdrop:{}:{}", t, i));
        }
        for (h, hh) in handles.iter().enumerate() {
            if let Some(MHandle { state: HState::Entered(tt), .. }) = hh {
                if *tt == t {
                    next.push(format!("exit:{}:{}", t, h));
                    next.push(format!("edrop:{}:{}", t, h));
                }
            }
        }
        if let Some(fr) = free {
            for cs in 0..3u8 {
                next.push(format!("new:{}:{}:{}:ctx", t, fr, cs));
                next.push(format!("new:{}:{}:{}:root", t, fr, cs));
                for &ph in &live_plain {
                    next.push(format!("new:{}:{}:{}:of:{}", t, fr, cs, ph));
                }
            }
            // Span::current only when the notion is unambiguous for the model (<= 1 entered span of
            // the default collector on this thread)
            let entered_here = guards[t].iter().filter(|g| g.1 != usize::MAX && spans[g.1].k == defs[t]).count()
                + handles.iter().filter(|h| matches!(h, Some(MHandle { span: Some(si), state: HState::Entered(tt), .. }) if *tt == t && spans[*si].k == defs[t])).count();
            if entered_here <= 1 {
                next.push(format!("current:{}:{}", t, fr));
                next.push(format!("orcurrent:{}:{}", t, fr));
            }
        }
        for f in 0..2 {
            if let Some(mf) = &futs[f] {
                if !mf.done {
                    next.push(format!("poll:{}:{}", t, f));
                }
                next.push(format!("dropfut:{}:{}", t, f));
                next.push(format!("intoinner:{}:{}", t, f));
            }
        }
        if cfg.defaults {
            for d in 0..3u8 {
                if d != defs[t] {
                    next.push(format!("def:{}:{}", t, d));
                }
            }
        }
    }
    out.next = next;
    // tear down: drop guards (on their threads), then everything else
    for w in &workers {
        let _ = w.tx.send(Cmd::Quit);
    }
    for w in workers.iter_mut() {
        if let Some(h) = w.handle.take() {
            let _ = h.join();
        }
    }
    {
        let mut g = shared.lock().unwrap();
        for e in g.entered_handles.iter_mut() {
            drop(e.take());
        }
        for f in g.futs.iter_mut() {
            drop(f.take());
        }
        for h in g.handles.iter_mut() {
            if let Some(p) = h.take() {
                drop(unsafe { Box::from_raw(p) });
            }
        }
    }
    let _ = dguards;
    out
}

thread_local! {
    static DEFGUARD: std::cell::RefCell<Option<tracing_core::dispatch::DefaultGuard>> = const { std::cell::RefCell::new(None) };
}

fn explore(cfg: &Cfg) -> Res {
    let mut res = Res::default();
    let mut seen: HashSet<String> = HashSet::new();
    let mut level: Vec<Vec<String>> = vec![vec![]];
    let mut outcomes: HashSet<String> = HashSet::new();
    for depth in 0..=cfg.depth {
        let mut next_level = vec![];
        for h in &level {
            let r = run_history(cfg, h);
            res.transitions += 1;
            if !r.violations.is_empty() {
                if res.violations.len() < 3 {
                    res.violations.push((h.clone(), r.violations.join(" ;; ")));
                }
                continue;
            }
            outcomes.insert(h.last().map(|s| s.split(':').next().unwrap().to_string()).unwrap_or_default());
            if seen.insert(r.key.clone()) {
                res.states += 1;
                if res.sample.is_empty() && h.len() >= 4 {
                    res.sample = h.clone();
                }
                if depth < cfg.depth {
                    for op in &r.next {
                        let mut nh = h.clone();
                        nh.push(op.clone());
                        next_level.push(nh);
                    }
                }
            }
        }
        if !res.violations.is_empty() {
            break;
        }
        level = next_level;
    }
    res.outcomes = outcomes.len() as u64;
    res
}

#[derive(Serialize, Deserialize, Clone, Debug)]
struct Job {
    cfg: Cfg,
    /// explore only histories starting with this operation (work splitting); empty = all
    first: Vec<String>,
}

fn explore_from(cfg: &Cfg, roots: Vec<Vec<String>>) -> Res {
    // BFS restricted to the given first operations
    let mut res = Res::default();
    let mut seen: HashSet<String> = HashSet::new();
    let mut level: Vec<Vec<String>> = roots;
    for depth in 1..=cfg.depth {
        let mut next_level = vec![];
        for h in &level {
            let r = run_history(cfg, h);
            res.transitions += 1;
            if !r.violations.is_empty() {
                if res.violations.len() < 3 {
                    res.violations.push((h.clone(), r.violations.join(" ;; ")));
                }
                continue;
            }
            if seen.insert(r.key.clone()) {
                res.states += 1;
                if res.sample.is_empty() && h.len() >= 4 {
                    res.sample = h.clone();
                }
                if depth < cfg.depth {
                    for op in &r.next {
                        let mut nh = h.clone();
                        nh.push(op.clone());
                        next_level.push(nh);
                    }
                }
            }
        }
        if !res.violations.is_empty() {
            break;
        }
        level = next_level;
    }
    res
}

fn runner(job: &[u8]) -> Vec<u8> {
    let job: Job = serde_json::from_slice(job).unwrap();
    let r = if job.first.is_empty() { explore(&job.cfg) } else { explore_from(&job.cfg, job.first.iter().map(|f| vec![f.clone()]).collect()) };
    serde_json::to_vec(&r).unwrap()
}

pub fn run(args: &Args) -> i32 {
    let mut rep = Report::new(args, "model_checking");
    if let Some(p) = &args.replay {
        let v: serde_json::Value = serde_json::from_str(&std::fs::read_to_string(p).expect("read replay")).expect("json");
        let cfg: Cfg = serde_json::from_value(v["case"]["cfg"].clone()).unwrap();
        let h: Vec<String> = serde_json::from_value(v["case"]["history"].clone()).unwrap();
        let r = run_history(&cfg, &h);
        println!("history {:?}", h);
        for c in log_since(0) {
            println!("  k{} {} id={:#x} arg={:#x} tid={}", c.k, c.kind, c.id, c.arg, c.tid);
        }
        for x in &r.violations {
            println!("VIOLATION property={} replay={} :: {}", args.property, p, x);
        }
        if r.violations.is_empty() {
            println!("replay: no violation");
        }
        return i32::from(!r.violations.is_empty());
    }
    let depth = std::env::var("VERIF_DEPTH").ok().and_then(|s| s.parse().ok()).unwrap_or(args.tier.pick(6, 7));
    let cfgs = vec![
        // one thread, handles/guards/futures
        Cfg { depth, max_handles: 3, threads: 1, defaults: false, futures: true, wrap: 0 },
        // two threads (handles used and dropped on either thread), no futures
        Cfg { depth: depth.saturating_sub(1), max_handles: 2, threads: 2, defaults: false, futures: false, wrap: 0 },
        // thread default switched between own / another collector / none
        Cfg { depth: depth.saturating_sub(1), max_handles: 2, threads: 1, defaults: true, futures: true, wrap: 0 },
        // the collector behind each of the forwarding wrappers
        Cfg { depth: depth.saturating_sub(2), max_handles: 2, threads: 1, defaults: false, futures: true, wrap: 1 },
        Cfg { depth: depth.saturating_sub(2), max_handles: 2, threads: 1, defaults: false, futures: true, wrap: 2 },
        Cfg { depth: depth.saturating_sub(2), max_handles: 2, threads: 1, defaults: false, futures: true, wrap: 3 },
    ];
    // split each configuration by its first operation
    let mut jobs = vec![];
    for cfg in &cfgs {
        let r0 = run_history(cfg, &[]);
        for op in r0.next {
            jobs.push(Job { cfg: cfg.clone(), first: vec![op] });
        }
    }
    let mut pool = Pool::new(mc::pool::default_workers(), runner, false, Duration::from_secs(1800));
    let (mut states, mut trans) = (0u64, 0u64);
    let mut results = vec![];
    let mut crashed = vec![];
    pool.run_list(jobs.iter().map(|j| serde_json::to_vec(j).unwrap()).collect(), |job, out| {
        let j: Job = serde_json::from_slice(job).unwrap();
        match out {
            Outcome::Ok(b) => results.push((j, serde_json::from_slice::<Res>(&b).unwrap())),
            o => crashed.push((j, format!("{:?}", o))),
        }
    });
    for (j, o) in crashed {
        rep.violation(format!("exploration crashed ({}): a Span API program brought the process down", o), json!({"cfg": j.cfg, "history": j.first}));
    }
    results.sort_by_key(|(j, _)| serde_json::to_string(j).unwrap());
    for (j, r) in &results {
        states += r.states;
        trans += r.transitions;
        for (h, m) in &r.violations {
            rep.violation(m.clone(), json!({"cfg": j.cfg, "history": h}));
        }
        if !r.sample.is_empty() {
            rep.sample(json!({"history": r.sample}));
        }
    }
    rep.cov("states", states);
    rep.cov("transitions", trans);
    rep.cov("traces_validated_against_impl", trans);
    rep.cov("depth", depth as u64);
    rep.cov("configurations", json!(cfgs));
    rep.cov("explanation", "states = distinct model states (handle table with plain / EnteredSpan / moved-into-future states, per-span close and handle counts, per-thread borrowed guards, futures with remaining polls, thread defaults) reached per first operation; transitions = programs executed on fresh OS threads against two recording collectors (the own one rejects the callsite `dis`, the other accepts everything); after every step the exact list of collector calls (collector, kind, span id, thread) must equal the model's");
    rep.assume("a handle is not dropped while a borrowed Entered guard of it exists (Rust's borrow checker enforces the same)");
    rep.assume("both Instrumented types (tracing and tracing-futures) are exercised; each poll and the inner future's drop must run inside the span");
    rep.finish()
}
