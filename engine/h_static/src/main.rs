//! Compile-time maximum level stage (tracing feature `max_level_info`): callsites above INFO must
//! evaluate nothing and reach no collector even under an accept-everything collector; callsites at
//! or below INFO behave as usual. Prints one JSON object {"evals": n, "bad": [..]}.
use std::cell::RefCell;
use std::sync::Mutex;
use tracing_core::{span, Collect, Dispatch, Event, Interest, Metadata};

thread_local! { static TICKS: RefCell<u32> = const { RefCell::new(0) }; }
fn tick<T>(v: T) -> T {
    TICKS.with(|t| *t.borrow_mut() += 1);
    v
}
static CALLS: Mutex<Vec<String>> = Mutex::new(Vec::new());

struct K(u8);
impl Collect for K {
    fn register_callsite(&self, _: &'static Metadata<'static>) -> Interest {
        if self.0 == 0 {
            Interest::always()
        } else {
            Interest::sometimes()
        }
    }
    fn enabled(&self, _: &Metadata<'_>) -> bool {
        true
    }
    fn new_span(&self, a: &span::Attributes<'_>) -> span::Id {
        CALLS.lock().unwrap().push(format!("new_span {}", a.metadata().level()));
        span::Id::from_u64(1)
    }
    fn record(&self, _: &span::Id, _: &span::Record<'_>) {}
    fn record_follows_from(&self, _: &span::Id, _: &span::Id) {}
    fn event(&self, e: &Event<'_>) {
        CALLS.lock().unwrap().push(format!("event {}", e.metadata().level()));
    }
    fn enter(&self, _: &span::Id) {}
    fn exit(&self, _: &span::Id) {}
    fn current_span(&self) -> span::Current {
        span::Current::unknown()
    }
}

macro_rules! cases {
    ($( $name:ident, $lvl:expr, $rank:expr; )*) => {
        fn all() -> Vec<(&'static str, u8, fn(), fn(), fn() -> bool)> {
            $(
                mod $name {
                    pub fn ev() { tracing::event!($lvl, k = super::tick(1u8), "m {}", super::tick(2)); }
                    pub fn sp() { let _s = tracing::span!($lvl, "s", k = super::tick(1u8)); }
                    pub fn en() -> bool { tracing::enabled!($lvl) }
                }
            )*
            vec![ $( (stringify!($name), $rank, $name::ev as fn(), $name::sp as fn(), $name::en as fn() -> bool), )* ]
        }
    };
}
cases! {
    error, tracing::Level::ERROR, 1;
    warn, tracing::Level::WARN, 2;
    info, tracing::Level::INFO, 3;
    debug, tracing::Level::DEBUG, 4;
    trace, tracing::Level::TRACE, 5;
}

fn main() {
    let mut bad: Vec<String> = vec![];
    let mut evals = 0u64;
    for mode in 0..2u8 {
        let d = Dispatch::new(K(mode));
        tracing_core::dispatch::with_default(&d, || {
            for round in 0..2 {
                for (name, rank, ev, sp, en) in all() {
                    let want = rank <= 3;
                    for (what, f, ticks_when_on) in [("event", ev, 2u32), ("span", sp, 1u32)] {
                        evals += 1;
                        CALLS.lock().unwrap().clear();
                        TICKS.with(|t| *t.borrow_mut() = 0);
                        f();
                        let calls = CALLS.lock().unwrap().len();
                        let ticks = TICKS.with(|t| *t.borrow());
                        let (wc, wt) = if want { (1, ticks_when_on) } else { (0, 0) };
                        if calls != wc || ticks != wt {
                            bad.push(format!("{} {} (collector mode {}, hit {}): {} collector calls, {} expression evaluations; with max_level_info expected {} and {}", name, what, mode, round + 1, calls, ticks, wc, wt));
                        }
                    }
                    evals += 1;
                    if en() != want {
                        bad.push(format!("enabled!({}) = {} under max_level_info", name, en()));
                    }
                }
            }
        });
    }
    println!("{}", serde_json::json!({"evals": evals, "bad": bad}));
}
