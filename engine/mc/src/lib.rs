//! Shared model-checking machinery for the tokio-rs/tracing property checks.
pub mod explore;
pub mod hist;
pub mod pool;
pub mod report;
pub mod sched;

pub use report::{parse_args, Args, Report, Tier};
