//! Engine S, child side: a cooperative scheduler over REAL OS threads. Exactly one registered
//! thread runs at a time; control changes hands only at hook points (`point` / `wait_until`) that
//! the code under test calls when built with the `verif-hooks` feature. The schedule is a list of
//! choices made at *decision points* (moments at which more than one thread is enabled); a prefix of
//! choices is replayed, after which the default policy is "keep running the current thread if it is
//! enabled, else the lowest enabled thread id".
use serde::{Deserialize, Serialize};
use std::cell::Cell;
use std::sync::{Condvar, Mutex, MutexGuard};

#[derive(Clone, Debug, Serialize, Deserialize, PartialEq, Eq)]
pub struct Decision {
    /// enabled thread ids at this decision (len >= 2)
    pub enabled: Vec<u8>,
    pub chosen: u8,
    /// the thread that was running when the decision was taken, if it is still enabled
    pub running: Option<u8>,
    /// label of the operation the chosen thread is about to perform
    pub label: String,
}

#[derive(Clone, Debug, Serialize, Deserialize, PartialEq, Eq)]
pub enum End {
    Done,
    Deadlock(Vec<String>),
    Livelock,
    /// replay prefix asked for a thread that is not enabled (machinery error)
    Diverged(String),
}

#[derive(Clone, Debug, Serialize, Deserialize)]
pub struct Trace {
    pub decisions: Vec<Decision>,
    pub end: End,
    pub panics: Vec<(u8, String)>,
    /// total scheduling steps (including forced ones)
    pub steps: usize,
    /// (thread, label) of every step in execution order (only when `record_steps`)
    pub step_log: Vec<(u8, String)>,
}

#[derive(Clone, Copy, PartialEq, Eq, Debug)]
enum Status {
    Reserved,
    Waiting,
    Running,
    Finished,
}

struct Th {
    status: Status,
    label: &'static str,
    pred: Option<*const (dyn Fn() -> bool + 'static)>,
}

struct St {
    active: bool,
    threads: Vec<Th>,
    current: Option<usize>,
    prefix: Vec<u8>,
    decisions: Vec<Decision>,
    end: Option<End>,
    panics: Vec<(u8, String)>,
    steps: usize,
    horizon: usize,
    record_steps: bool,
    step_log: Vec<(u8, String)>,
    clock: Option<(i64, u32)>,
}

unsafe impl Send for St {}

static S: Mutex<Option<St>> = Mutex::new(None);
static CV: Condvar = Condvar::new();

thread_local! {
    static TID: Cell<Option<usize>> = const { Cell::new(None) };
    static IN_SCHED: Cell<bool> = const { Cell::new(false) };
}

fn lock() -> MutexGuard<'static, Option<St>> {
    S.lock().unwrap_or_else(|e| e.into_inner())
}

fn park_forever() -> ! {
    loop {
        std::thread::park();
    }
}

impl St {
    fn is_enabled(&self, t: usize) -> bool {
        let th = &self.threads[t];
        if th.status != Status::Waiting {
            return false;
        }
        match th.pred {
            None => true,
            Some(p) => {
                IN_SCHED.with(|f| f.set(true));
                let r = unsafe { (*p)() };
                IN_SCHED.with(|f| f.set(false));
                r
            }
        }
    }

    /// Takes a scheduling decision. `running` = the thread that just arrived at a point (if any).
    fn decide(&mut self, running: Option<usize>) {
        if self.end.is_some() {
            return;
        }
        let enabled: Vec<usize> = (0..self.threads.len()).filter(|&t| self.is_enabled(t)).collect();
        if enabled.is_empty() {
            if self.threads.iter().all(|t| t.status == Status::Finished) {
                self.end = Some(End::Done);
            } else {
                let waiting = self
                    .threads
                    .iter()
                    .enumerate()
                    .filter(|(_, t)| t.status == Status::Waiting)
                    .map(|(i, t)| format!("t{}@{}", i, t.label))
                    .collect();
                self.end = Some(End::Deadlock(waiting));
            }
            self.current = None;
            return;
        }
        self.steps += 1;
        if self.steps > self.horizon {
            self.end = Some(End::Livelock);
            self.current = None;
            return;
        }
        let running_enabled = running.filter(|r| enabled.contains(r));
        let chosen = if enabled.len() == 1 {
            enabled[0]
        } else {
            let idx = self.decisions.len();
            let c = if idx < self.prefix.len() {
                let c = self.prefix[idx] as usize;
                if !enabled.contains(&c) {
                    self.end = Some(End::Diverged(format!(
                        "decision {} asked for t{} but enabled={:?}",
                        idx, c, enabled
                    )));
                    self.current = None;
                    return;
                }
                c
            } else {
                running_enabled.unwrap_or(enabled[0])
            };
            self.decisions.push(Decision {
                enabled: enabled.iter().map(|&e| e as u8).collect(),
                chosen: c as u8,
                running: running_enabled.map(|r| r as u8),
                label: self.threads[c].label.to_string(),
            });
            c
        };
        if self.record_steps {
            self.step_log.push((chosen as u8, self.threads[chosen].label.to_string()));
        }
        self.current = Some(chosen);
    }
}

fn arrive(label: &'static str, pred: Option<&dyn Fn() -> bool>) {
    if IN_SCHED.with(|f| f.get()) {
        return;
    }
    let Some(tid) = TID.with(|t| t.get()) else { return };
    let mut g = lock();
    {
        let Some(st) = g.as_mut() else { return };
        if !st.active {
            return;
        }
        st.threads[tid].status = Status::Waiting;
        st.threads[tid].label = label;
        st.threads[tid].pred =
            pred.map(|p| unsafe { std::mem::transmute::<&dyn Fn() -> bool, *const (dyn Fn() -> bool + 'static)>(p) });
    }
    // wait for spawned-but-not-yet-arrived threads, so the enabled set is deterministic
    while g.as_ref().unwrap().threads.iter().any(|t| t.status == Status::Reserved) {
        g = CV.wait(g).unwrap_or_else(|e| e.into_inner());
    }
    g.as_mut().unwrap().decide(Some(tid));
    CV.notify_all();
    loop {
        let st = g.as_mut().unwrap();
        if st.end.is_some() && st.end != Some(End::Done) {
            drop(g);
            park_forever();
        }
        if st.current == Some(tid) {
            st.threads[tid].status = Status::Running;
            st.threads[tid].pred = None;
            return;
        }
        g = CV.wait(g).unwrap_or_else(|e| e.into_inner());
    }
}

fn hook_point(label: &'static str) {
    arrive(label, None)
}

fn hook_wait_until(label: &'static str, pred: &dyn Fn() -> bool) {
    arrive(label, Some(pred))
}

fn hook_pre_spawn() -> usize {
    if TID.with(|t| t.get()).is_none() {
        return usize::MAX;
    }
    let mut g = lock();
    let Some(st) = g.as_mut() else { return usize::MAX };
    if !st.active {
        return usize::MAX;
    }
    st.threads.push(Th { status: Status::Reserved, label: "spawned", pred: None });
    st.threads.len() - 1
}

fn hook_thread_begin(ticket: usize) {
    if ticket == usize::MAX {
        return;
    }
    TID.with(|t| t.set(Some(ticket)));
    let mut g = lock();
    {
        let st = g.as_mut().unwrap();
        st.threads[ticket].status = Status::Waiting;
        st.threads[ticket].label = "thread.begin";
    }
    CV.notify_all();
    loop {
        let st = g.as_mut().unwrap();
        if st.end.is_some() && st.end != Some(End::Done) {
            drop(g);
            park_forever();
        }
        if st.current == Some(ticket) {
            st.threads[ticket].status = Status::Running;
            return;
        }
        g = CV.wait(g).unwrap_or_else(|e| e.into_inner());
    }
}

fn hook_thread_end() {
    let Some(tid) = TID.with(|t| t.get()) else { return };
    TID.with(|t| t.set(None));
    let mut g = lock();
    let Some(st) = g.as_mut() else { return };
    if !st.active {
        return;
    }
    st.threads[tid].status = Status::Finished;
    drop(g);
    finish_step(None);
}

fn finish_step(_tid: Option<usize>) {
    let mut g = lock();
    while g.as_ref().unwrap().threads.iter().any(|t| t.status == Status::Reserved) {
        g = CV.wait(g).unwrap_or_else(|e| e.into_inner());
    }
    g.as_mut().unwrap().decide(None);
    CV.notify_all();
}

fn hook_now() -> Option<(i64, u32)> {
    CLOCK.with(|c| c.get()).or_else(|| {
        let g = lock();
        g.as_ref().and_then(|s| s.clock)
    })
}

thread_local! {
    static CLOCK: Cell<Option<(i64, u32)>> = const { Cell::new(None) };
}

/// Sets the clock seam value seen by *this thread* (None = fall back to the global seam value).
pub fn set_thread_clock(v: Option<(i64, u32)>) {
    CLOCK.with(|c| c.set(v));
}

/// Sets the clock seam value seen by every thread without its own value.
pub fn set_global_clock(v: Option<(i64, u32)>) {
    let mut g = lock();
    if g.is_none() {
        *g = Some(St {
            active: false,
            threads: vec![],
            current: None,
            prefix: vec![],
            decisions: vec![],
            end: None,
            panics: vec![],
            steps: 0,
            horizon: 0,
            record_steps: false,
            step_log: vec![],
            clock: None,
        });
    }
    g.as_mut().unwrap().clock = v;
}

static NOTES: Mutex<Vec<(&'static str, u64)>> = Mutex::new(Vec::new());

fn hook_note(l: &'static str, v: u64) {
    NOTES.lock().unwrap_or_else(|e| e.into_inner()).push((l, v));
}

/// Observation-only notes the code under test left through `__verif::note` (label, value).
pub fn take_notes() -> Vec<(&'static str, u64)> {
    std::mem::take(&mut *NOTES.lock().unwrap_or_else(|e| e.into_inner()))
}

static HOOKS: tracing_core::__verif::Hooks = tracing_core::__verif::Hooks {
    point: hook_point,
    wait_until: hook_wait_until,
    pre_spawn: hook_pre_spawn,
    thread_begin: hook_thread_begin,
    thread_end: hook_thread_end,
    now: hook_now,
    note: hook_note,
};

pub fn install_hooks() {
    tracing_core::__verif::install(Some(&HOOKS));
}

/// A harness-owned scheduling point (e.g. before dropping a `Dispatch`, before a sink's `write`).
pub fn point(label: &'static str) {
    arrive(label, None)
}

pub fn wait_until(label: &'static str, pred: &dyn Fn() -> bool) {
    arrive(label, Some(pred))
}

pub fn current_tid() -> Option<usize> {
    TID.with(|t| t.get())
}

pub struct RunCfg {
    pub prefix: Vec<u8>,
    pub horizon: usize,
    pub record_steps: bool,
}

/// Runs `bodies` as threads t0..tn under the scheduler (in the calling process; the caller is the
/// unregistered controller). Returns when all threads (including library-spawned ones) finished
/// or the execution was aborted (deadlock / livelock / divergence). In the aborted case the
/// threads stay blocked: the caller must report and `_exit`.
pub fn run_threads(cfg: RunCfg, bodies: Vec<Box<dyn FnOnce() + Send + 'static>>) -> Trace {
    install_hooks();
    let n = bodies.len();
    {
        let mut g = lock();
        let clock = g.as_ref().and_then(|s| s.clock);
        *g = Some(St {
            active: true,
            threads: (0..n).map(|_| Th { status: Status::Reserved, label: "start", pred: None }).collect(),
            current: None,
            prefix: cfg.prefix,
            decisions: vec![],
            end: None,
            panics: vec![],
            steps: 0,
            horizon: cfg.horizon,
            record_steps: cfg.record_steps,
            step_log: vec![],
            clock,
        });
    }
    let mut handles = vec![];
    for (i, body) in bodies.into_iter().enumerate() {
        handles.push(
            std::thread::Builder::new()
                .name(format!("t{}", i))
                .spawn(move || {
                    hook_thread_begin(i);
                    let r = std::panic::catch_unwind(std::panic::AssertUnwindSafe(body));
                    if let Err(e) = r {
                        let msg = if let Some(s) = e.downcast_ref::<&str>() {
                            s.to_string()
                        } else if let Some(s) = e.downcast_ref::<String>() {
                            s.clone()
                        } else {
                            "<non-string panic>".to_string()
                        };
                        let mut g = lock();
                        if let Some(st) = g.as_mut() {
                            st.panics.push((i as u8, msg));
                        }
                    }
                    hook_thread_end();
                })
                .expect("spawn"),
        );
    }
    // wait for all to arrive, then take the first decision
    {
        let mut g = lock();
        while g.as_ref().unwrap().threads.iter().any(|t| t.status == Status::Reserved) {
            g = CV.wait(g).unwrap_or_else(|e| e.into_inner());
        }
        g.as_mut().unwrap().decide(None);
        CV.notify_all();
        while g.as_ref().unwrap().end.is_none() {
            g = CV.wait(g).unwrap_or_else(|e| e.into_inner());
        }
    }
    let (trace, done) = {
        let mut g = lock();
        let st = g.as_mut().unwrap();
        st.active = false;
        let end = st.end.clone().unwrap();
        (
            Trace {
                decisions: std::mem::take(&mut st.decisions),
                end: end.clone(),
                panics: st.panics.clone(),
                steps: st.steps,
                step_log: std::mem::take(&mut st.step_log),
            },
            end == End::Done,
        )
    };
    if done {
        for h in handles {
            let _ = h.join();
        }
    }
    trace
}
