//! Fork pool: W worker processes (forked once, single-threaded); each worker runs every job in a
//! freshly forked grandchild, so each explored execution starts from a fresh process image.
use std::collections::VecDeque;
use std::io::{Read, Write};
use std::os::unix::io::FromRawFd;
use std::time::Duration;

pub type Runner = fn(&[u8]) -> Vec<u8>;

#[derive(Debug, Clone)]
pub enum Outcome {
    Ok(Vec<u8>),
    /// grandchild died by a signal
    Signal(i32),
    /// grandchild exceeded its wall cap and was killed
    Timeout,
    /// grandchild exited without delivering a result
    NoResult(i32),
}

struct Worker {
    pid: libc::pid_t,
    to: std::fs::File,
    from: std::fs::File,
    from_fd: i32,
    busy: Option<usize>,
}

pub struct Pool {
    workers: Vec<Worker>,
}

fn write_frame(f: &mut std::fs::File, tag: u8, data: &[u8]) -> std::io::Result<()> {
    let mut hdr = [0u8; 5];
    hdr[0] = tag;
    hdr[1..5].copy_from_slice(&(data.len() as u32).to_le_bytes());
    f.write_all(&hdr)?;
    f.write_all(data)
}

fn read_frame(f: &mut std::fs::File) -> std::io::Result<(u8, Vec<u8>)> {
    let mut hdr = [0u8; 5];
    f.read_exact(&mut hdr)?;
    let len = u32::from_le_bytes([hdr[1], hdr[2], hdr[3], hdr[4]]) as usize;
    let mut buf = vec![0u8; len];
    f.read_exact(&mut buf)?;
    Ok((hdr[0], buf))
}

fn pipe() -> (i32, i32) {
    let mut fds = [0i32; 2];
    let r = unsafe { libc::pipe(fds.as_mut_ptr()) };
    assert_eq!(r, 0, "pipe failed");
    (fds[0], fds[1])
}

pub fn quiet_child() {
    // subject panics inside children are observations, not console noise
    if std::env::var_os("VERIF_DEBUG").is_none() {
        std::panic::set_hook(Box::new(|_| {}));
        unsafe {
            let devnull = libc::open(b"/dev/null\0".as_ptr() as *const _, libc::O_WRONLY);
            if devnull >= 0 {
                libc::dup2(devnull, 2);
                libc::close(devnull);
            }
        }
    }
}

/// Runs `runner(job)` in a forked child of the calling (single-threaded) process.
pub fn run_isolated(runner: Runner, job: &[u8], timeout: Duration) -> Outcome {
    let (rfd, wfd) = pipe();
    let pid = unsafe { libc::fork() };
    assert!(pid >= 0, "fork failed");
    if pid == 0 {
        unsafe { libc::close(rfd) };
        quiet_child();
        let res = std::panic::catch_unwind(|| runner(job));
        let mut w = unsafe { std::fs::File::from_raw_fd(wfd) };
        let code = match res {
            Ok(bytes) => {
                let _ = write_frame(&mut w, 0, &bytes);
                0
            }
            Err(_) => 101,
        };
        let _ = w.flush();
        unsafe { libc::_exit(code) };
    }
    unsafe { libc::close(wfd) };
    let mut r = unsafe { std::fs::File::from_raw_fd(rfd) };
    // wait for data with timeout
    let mut pfd = libc::pollfd { fd: rfd, events: libc::POLLIN, revents: 0 };
    let ms = timeout.as_millis() as i32;
    let pr = loop {
        let pr = unsafe { libc::poll(&mut pfd, 1, ms) };
        if pr < 0 && std::io::Error::last_os_error().kind() == std::io::ErrorKind::Interrupted {
            continue;
        }
        break pr;
    };
    let mut out = None;
    let mut timed_out = false;
    if pr == 0 {
        timed_out = true;
        unsafe { libc::kill(pid, libc::SIGKILL) };
    } else if let Ok((_, data)) = read_frame(&mut r) {
        out = Some(data);
    }
    drop(r);
    let mut status = 0i32;
    // the child may have other threads blocked forever; it _exits on its own after writing,
    // but be safe: if we have the result, kill it.
    if out.is_some() {
        unsafe { libc::kill(pid, libc::SIGKILL) };
    }
    unsafe { libc::waitpid(pid, &mut status, 0) };
    if let Some(d) = out {
        return Outcome::Ok(d);
    }
    if timed_out {
        return Outcome::Timeout;
    }
    if libc::WIFSIGNALED(status) {
        Outcome::Signal(libc::WTERMSIG(status))
    } else {
        Outcome::NoResult(libc::WEXITSTATUS(status))
    }
}

fn encode_outcome(o: &Outcome) -> (u8, Vec<u8>) {
    match o {
        Outcome::Ok(d) => (0, d.clone()),
        Outcome::Signal(s) => (1, s.to_le_bytes().to_vec()),
        Outcome::Timeout => (2, vec![]),
        Outcome::NoResult(c) => (3, c.to_le_bytes().to_vec()),
    }
}

fn decode_outcome(tag: u8, d: Vec<u8>) -> Outcome {
    let num = |d: &[u8]| i32::from_le_bytes([d[0], d[1], d[2], d[3]]);
    match tag {
        0 => Outcome::Ok(d),
        1 => Outcome::Signal(num(&d)),
        2 => Outcome::Timeout,
        _ => Outcome::NoResult(num(&d)),
    }
}

impl Pool {
    /// Must be called while the process is single-threaded.
    pub fn new(n: usize, runner: Runner, isolate: bool, timeout: Duration) -> Pool {
        let _ = std::io::stdout().flush();
        let mut workers = Vec::new();
        for _ in 0..n {
            let (job_r, job_w) = pipe();
            let (res_r, res_w) = pipe();
            let pid = unsafe { libc::fork() };
            assert!(pid >= 0);
            if pid == 0 {
                unsafe {
                    libc::close(job_w);
                    libc::close(res_r);
                    // die with the parent
                    libc::prctl(libc::PR_SET_PDEATHSIG, libc::SIGKILL);
                }
                // close fds of earlier workers
                for w in &workers {
                    let w: &Worker = w;
                    unsafe {
                        libc::close(w.from_fd);
                    }
                }
                let mut jr = unsafe { std::fs::File::from_raw_fd(job_r) };
                let mut rw = unsafe { std::fs::File::from_raw_fd(res_w) };
                if !isolate {
                    quiet_child();
                }
                loop {
                    let (_, job) = match read_frame(&mut jr) {
                        Ok(x) => x,
                        Err(_) => unsafe { libc::_exit(0) },
                    };
                    let out = if isolate {
                        run_isolated(runner, &job, timeout)
                    } else {
                        match std::panic::catch_unwind(|| runner(&job)) {
                            Ok(b) => Outcome::Ok(b),
                            Err(_) => Outcome::NoResult(101),
                        }
                    };
                    let (tag, data) = encode_outcome(&out);
                    if write_frame(&mut rw, tag, &data).is_err() {
                        unsafe { libc::_exit(0) };
                    }
                }
            }
            unsafe {
                libc::close(job_r);
                libc::close(res_w);
            }
            workers.push(Worker {
                pid,
                to: unsafe { std::fs::File::from_raw_fd(job_w) },
                from: unsafe { std::fs::File::from_raw_fd(res_r) },
                from_fd: res_r,
                busy: None,
            });
        }
        Pool { workers }
    }

    /// Generic driver: pulls jobs from `src` while workers are idle, feeds results back.
    pub fn drive(&mut self, src: &mut dyn JobSource) {
        let mut inflight: Vec<Option<Vec<u8>>> = (0..self.workers.len()).map(|_| None).collect();
        let mut outstanding = 0usize;
        loop {
            let stopped = src.stop();
            if !stopped {
                for (i, w) in self.workers.iter_mut().enumerate() {
                    if w.busy.is_none() {
                        match src.next() {
                            Some(j) => {
                                write_frame(&mut w.to, 0, &j).expect("worker died");
                                w.busy = Some(0);
                                inflight[i] = Some(j);
                                outstanding += 1;
                            }
                            None => break,
                        }
                    }
                }
            }
            if outstanding == 0 {
                break;
            }
            let mut pfds: Vec<libc::pollfd> = self
                .workers
                .iter()
                .map(|w| libc::pollfd {
                    fd: if w.busy.is_some() { w.from_fd } else { -1 },
                    events: libc::POLLIN,
                    revents: 0,
                })
                .collect();
            let pr = unsafe { libc::poll(pfds.as_mut_ptr(), pfds.len() as _, -1) };
            if pr < 0 {
                continue;
            }
            for (i, p) in pfds.iter().enumerate() {
                if p.revents & (libc::POLLIN | libc::POLLHUP) != 0 && self.workers[i].busy.is_some() {
                    let (tag, data) = read_frame(&mut self.workers[i].from).expect("worker died");
                    self.workers[i].busy = None;
                    outstanding -= 1;
                    let job = inflight[i].take().unwrap();
                    src.result(&job, decode_outcome(tag, data));
                }
            }
        }
    }

    /// Convenience: run a fixed list of jobs, calling `f(job, outcome)` for each.
    pub fn run_list(&mut self, jobs: Vec<Vec<u8>>, mut f: impl FnMut(&[u8], Outcome)) {
        struct L<'a> {
            q: VecDeque<Vec<u8>>,
            f: &'a mut dyn FnMut(&[u8], Outcome),
        }
        impl JobSource for L<'_> {
            fn next(&mut self) -> Option<Vec<u8>> {
                self.q.pop_front()
            }
            fn result(&mut self, job: &[u8], out: Outcome) {
                (self.f)(job, out)
            }
        }
        let mut l = L { q: jobs.into(), f: &mut f };
        self.drive(&mut l);
    }
}

pub trait JobSource {
    fn next(&mut self) -> Option<Vec<u8>>;
    fn result(&mut self, job: &[u8], out: Outcome);
    fn stop(&mut self) -> bool {
        false
    }
}

impl Drop for Pool {
    fn drop(&mut self) {
        for w in self.workers.drain(..) {
            let pid = w.pid;
            drop(w);
            let mut st = 0;
            unsafe {
                libc::kill(pid, libc::SIGKILL);
                libc::waitpid(pid, &mut st, 0);
            }
        }
    }
}

pub fn default_workers() -> usize {
    std::env::var("VERIF_WORKERS")
        .ok()
        .and_then(|s| s.parse().ok())
        .unwrap_or_else(|| std::thread::available_parallelism().map(|n| n.get()).unwrap_or(8))
}
