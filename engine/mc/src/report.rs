//! Verdict bookkeeping: violations, known findings, replay files, evidence JSON, exit codes.
use serde_json::{json, Map, Value};
use std::collections::BTreeMap;
use std::path::PathBuf;
use std::time::Instant;

pub fn verif_root() -> PathBuf {
    PathBuf::from(std::env::var("VERIF_ROOT").unwrap_or_else(|_| "/verif".into()))
}

#[derive(Clone, Copy, PartialEq, Eq, Debug)]
pub enum Tier {
    Quick,
    Thorough,
}

impl Tier {
    pub fn as_str(self) -> &'static str {
        match self {
            Tier::Quick => "quick",
            Tier::Thorough => "thorough",
        }
    }
    pub fn pick<T>(self, q: T, t: T) -> T {
        match self {
            Tier::Quick => q,
            Tier::Thorough => t,
        }
    }
}

pub struct Args {
    pub property: String,
    pub tier: Tier,
    pub replay: Option<String>,
    pub seed: i64,
    pub extra: Vec<String>,
}

pub fn parse_args() -> Args {
    let mut it = std::env::args().skip(1);
    let property = it.next().expect("usage: <harness> <Cxx> [--tier quick|thorough] [--replay FILE]");
    let mut tier = match std::env::var("VERIF_TIER").ok().as_deref() {
        Some("thorough") => Tier::Thorough,
        _ => Tier::Quick,
    };
    let mut replay = None;
    let mut extra = vec![];
    while let Some(a) = it.next() {
        match a.as_str() {
            "--tier" => {
                tier = match it.next().as_deref() {
                    Some("thorough") => Tier::Thorough,
                    _ => Tier::Quick,
                }
            }
            "--replay" => replay = it.next(),
            _ => extra.push(a),
        }
    }
    let seed = std::env::var("VERIF_SEED").ok().and_then(|s| s.parse().ok()).unwrap_or(0);
    Args { property, tier, replay, seed, extra }
}

#[derive(Clone, Debug)]
pub struct KnownFinding {
    pub id: String,
    pub property: String,
    pub status: String,
    pub what: String,
}

pub fn load_known_findings(property: &str) -> Vec<KnownFinding> {
    let p = verif_root().join("known_findings.json");
    let Ok(s) = std::fs::read_to_string(&p) else { return vec![] };
    let v: Value = serde_json::from_str(&s).expect("known_findings.json is not valid JSON");
    let mut out = vec![];
    for e in v["findings"].as_array().cloned().unwrap_or_default() {
        let props: Vec<String> = match &e["property"] {
            Value::String(s) => vec![s.clone()],
            Value::Array(a) => a.iter().filter_map(|x| x.as_str().map(String::from)).collect(),
            _ => vec![],
        };
        if props.iter().any(|p| p == property) {
            out.push(KnownFinding {
                id: e["id"].as_str().unwrap_or("").to_string(),
                property: property.to_string(),
                status: e["status"].as_str().unwrap_or("").to_string(),
                what: e["what"].as_str().unwrap_or("").to_string(),
            });
        }
    }
    out
}

pub struct Report {
    pub property: String,
    pub tier: Tier,
    pub seed: i64,
    pub level: &'static str,
    pub start: Instant,
    pub coverage: Map<String, Value>,
    pub assumptions: Vec<String>,
    pub violations: Vec<(String, Value)>,
    pub violation_count: usize,
    pub known: Vec<KnownFinding>,
    pub known_hits: BTreeMap<String, u64>,
    pub machinery_errors: Vec<String>,
    pub samples: Vec<Value>,
}

impl Report {
    pub fn new(args: &Args, level: &'static str) -> Report {
        Report {
            property: args.property.clone(),
            tier: args.tier,
            seed: args.seed,
            level,
            start: Instant::now(),
            coverage: Map::new(),
            assumptions: vec![],
            violations: vec![],
            violation_count: 0,
            known: load_known_findings(&args.property),
            known_hits: BTreeMap::new(),
            machinery_errors: vec![],
            samples: vec![],
        }
    }

    /// Is finding `id` listed as *open* for this property?
    pub fn is_open(&self, id: &str) -> bool {
        self.known.iter().any(|k| k.id == id && k.status == "open")
    }

    pub fn known_hit(&mut self, id: &str) {
        *self.known_hits.entry(id.to_string()).or_insert(0) += 1;
    }

    /// Record a violation; `case` is the replayable artefact (written to replays/<id>/).
    pub fn violation(&mut self, what: impl Into<String>, case: Value) {
        self.violation_count += 1;
        if self.violations.len() < 20 {
            self.violations.push((what.into(), case));
        }
    }

    pub fn machinery_error(&mut self, what: impl Into<String>) {
        if self.machinery_errors.len() < 20 {
            self.machinery_errors.push(what.into());
        }
    }

    pub fn sample(&mut self, v: Value) {
        if self.samples.len() < 6 {
            self.samples.push(v);
        }
    }

    pub fn cov(&mut self, k: &str, v: impl Into<Value>) {
        self.coverage.insert(k.to_string(), v.into());
    }

    pub fn cov_add(&mut self, k: &str, n: u64) {
        let cur = self.coverage.get(k).and_then(|v| v.as_u64()).unwrap_or(0);
        self.coverage.insert(k.to_string(), Value::from(cur + n));
    }

    pub fn assume(&mut self, s: &str) {
        if !self.assumptions.iter().any(|a| a == s) {
            self.assumptions.push(s.to_string());
        }
    }

    /// Writes evidence, prints verdict lines, returns the process exit code.
    pub fn finish(mut self) -> i32 {
        let root = verif_root();
        let wall = self.start.elapsed().as_secs_f64();
        if !self.coverage.contains_key("samples") {
            self.coverage.insert("samples".into(), Value::Array(self.samples.clone()));
        }
        if !self.known_hits.is_empty() {
            self.coverage.insert("known_findings".into(), json!(self.known_hits));
        }
        let mut replay_paths = vec![];
        if !self.violations.is_empty() {
            let dir = root.join("replays").join(&self.property);
            let _ = std::fs::create_dir_all(&dir);
            for (i, (what, case)) in self.violations.iter().enumerate() {
                let p = dir.join(format!("violation-{}-{}.json", self.tier.as_str(), i));
                let body = json!({"property": self.property, "what": what, "case": case});
                let _ = std::fs::write(&p, serde_json::to_string_pretty(&body).unwrap());
                replay_paths.push((what.clone(), p));
            }
        }
        let ev = json!({
            "property_id": self.property,
            "tier": self.tier.as_str(),
            "seed": self.seed,
            "level": self.level,
            "coverage": Value::Object(self.coverage.clone()),
            "assumptions": self.assumptions,
            "wall_s": (wall * 1000.0).round() / 1000.0,
            "violations": self.violation_count,
            "machinery_errors": self.machinery_errors,
        });
        let evdir = root.join("evidence");
        let _ = std::fs::create_dir_all(&evdir);
        let evp = evdir.join(format!("{}.json", self.property));
        std::fs::write(&evp, serde_json::to_string_pretty(&ev).unwrap()).expect("cannot write evidence");

        for (id, n) in &self.known_hits {
            let what = self.known.iter().find(|k| &k.id == id).map(|k| k.what.clone()).unwrap_or_default();
            println!("KNOWN-FINDING: property={} {} [{}] ({} occurrence(s) in this run)", self.property, what, id, n);
        }
        for e in &self.machinery_errors {
            println!("MACHINERY-ERROR property={} {}", self.property, e);
        }
        for (what, p) in &replay_paths {
            println!("VIOLATION property={} replay={} :: {}", self.property, p.display(), what);
        }
        let cov_short: Vec<String> = self
            .coverage
            .iter()
            .filter(|(_, v)| v.is_number() || v.is_boolean())
            .map(|(k, v)| format!("{}={}", k, v))
            .collect();
        println!(
            "[{} {}] violations={} known={} wall={:.1}s {}",
            self.property,
            self.tier.as_str(),
            self.violation_count,
            self.known_hits.len(),
            wall,
            cov_short.join(" ")
        );
        // a violation comes with a replayable case and stands on its own; machinery errors alone
        // (crashed engine, nondeterministic replay) are no verdict
        if self.violation_count > 0 {
            1
        } else if !self.machinery_errors.is_empty() {
            2
        } else {
            0
        }
    }
}
