//! Engine H, parent side: explicit-state breadth-first exploration of operation histories.
//! A state is the history that reaches it plus the canonical key computed by the child that
//! executed that history on the real code (fresh process per history). Level-synchronous, so the
//! result is independent of worker timing.
use crate::pool::{Outcome, Pool};
use serde::{Deserialize, Serialize};
use std::collections::{BTreeMap, BTreeSet, HashSet};
use std::time::Instant;

#[derive(Serialize, Deserialize, Clone, Debug)]
pub struct HJob {
    pub cfg: String,
    pub history: Vec<String>,
}

#[derive(Serialize, Deserialize, Clone, Debug, Default)]
pub struct HResult {
    /// canonical key of the state reached (model state + implementation caches)
    pub key: String,
    /// operations enabled in that state, simplest first
    pub next: Vec<String>,
    pub violations: Vec<String>,
    pub known: Vec<String>,
    /// do not extend this history (a known finding fired at its last step)
    pub cut: bool,
    /// observation summary of the last step (for counting distinct outcomes)
    pub obs: String,
}

#[derive(Default, Debug)]
pub struct HStats {
    pub states: u64,
    pub transitions: u64,
    pub depth_completed: usize,
    pub capped: bool,
    pub leftover: usize,
    pub cut_by_known: u64,
    pub distinct_obs: BTreeSet<String>,
    pub violations: Vec<(String, HJob)>,
    pub known: BTreeMap<String, u64>,
    pub machinery: Vec<String>,
    pub samples: Vec<HJob>,
    pub per_depth: Vec<(u64, u64)>,
}

pub struct HCfg {
    pub max_depth: usize,
    pub deadline: Instant,
    pub max_transitions: u64,
    pub dedup: bool,
    /// a crash (signal) or hang of the child is a violation of the property (sequential checks)
    pub crash_is_violation: bool,
    /// root histories the search starts from (depth counts operations *after* the root); the
    /// empty history is the initial state. Non-initial roots make deep states reachable.
    pub roots: Vec<Vec<String>>,
}

pub fn bfs(pool: &mut Pool, cfg: &str, h: &HCfg, stats: &mut HStats) {
    let mut seen: HashSet<String> = HashSet::new();
    let mut level: Vec<Vec<String>> = if h.roots.is_empty() { vec![vec![]] } else { h.roots.clone() };
    for depth in 0..=h.max_depth {
        if level.is_empty() {
            stats.depth_completed = h.max_depth;
            break;
        }
        if Instant::now() >= h.deadline || stats.transitions + level.len() as u64 > h.max_transitions {
            stats.capped = true;
            stats.leftover = level.len();
            break;
        }
        let jobs: Vec<Vec<u8>> = level
            .iter()
            .map(|hist| serde_json::to_vec(&HJob { cfg: cfg.to_string(), history: hist.clone() }).unwrap())
            .collect();
        let mut results: Vec<(Vec<String>, HResult)> = Vec::with_capacity(jobs.len());
        let mut machinery = vec![];
        let mut crashes = vec![];
        pool.run_list(jobs, |job, out| {
            let job: HJob = serde_json::from_slice(job).unwrap();
            match out {
                Outcome::Ok(b) => match serde_json::from_slice::<HResult>(&b) {
                    Ok(r) => results.push((job.history, r)),
                    Err(e) => machinery.push(format!("bad result {}", e)),
                },
                Outcome::Signal(s) => crashes.push((format!("process died by signal {}", s), job)),
                Outcome::Timeout => crashes.push(("execution hung (wall cap)".to_string(), job)),
                Outcome::NoResult(c) => machinery.push(format!("child exit {} without result on {:?}", c, job.history)),
            }
        });
        stats.machinery.extend(machinery);
        for (w, j) in crashes {
            if h.crash_is_violation {
                stats.violations.push((w, j));
            } else {
                stats.machinery.push(format!("{} on {:?}", w, j.history));
            }
        }
        if !stats.machinery.is_empty() {
            return;
        }
        results.sort_by(|a, b| a.0.cmp(&b.0));
        let mut next_level = vec![];
        let mut new_states = 0u64;
        for (hist, r) in results {
            stats.transitions += 1;
            stats.distinct_obs.insert(r.obs.clone());
            for k in &r.known {
                *stats.known.entry(k.clone()).or_insert(0) += 1;
            }
            if !r.violations.is_empty() {
                for v in &r.violations {
                    if stats.violations.len() < 50 {
                        stats.violations.push((v.clone(), HJob { cfg: cfg.to_string(), history: hist.clone() }));
                    }
                }
                continue; // do not extend a violating history
            }
            if r.cut {
                stats.cut_by_known += 1;
                continue;
            }
            let is_new = if h.dedup { seen.insert(r.key.clone()) } else { true };
            if is_new {
                new_states += 1;
                if stats.samples.len() < 4 && hist.len() >= 3.min(h.max_depth) {
                    stats.samples.push(HJob { cfg: cfg.to_string(), history: hist.clone() });
                }
                if depth < h.max_depth {
                    for op in &r.next {
                        let mut nh = hist.clone();
                        nh.push(op.clone());
                        next_level.push(nh);
                    }
                }
            }
        }
        stats.states += new_states;
        stats.per_depth.push((new_states, level.len() as u64));
        stats.depth_completed = depth;
        if !stats.violations.is_empty() {
            return; // shortest counterexamples first: stop at the first violating depth
        }
        level = next_level;
    }
}
