//! Engine S, parent side: stateless exploration of the schedule tree with preemption bounding.
//! Every schedule is executed from the initial state in a fresh forked process.
use crate::pool::{JobSource, Outcome, Pool};
use crate::sched::{End, Trace};
use serde::{Deserialize, Serialize};
use std::collections::{BTreeMap, BTreeSet, BinaryHeap};
use std::time::Instant;

#[derive(Serialize, Deserialize, Clone, Debug)]
pub struct SJob {
    pub scenario: String,
    pub prefix: Vec<u8>,
    #[serde(default)]
    pub record_steps: bool,
}

#[derive(Serialize, Deserialize, Clone, Debug, Default)]
pub struct SResult {
    pub trace: Option<Trace>,
    /// property violations found by the oracle on this schedule
    pub violations: Vec<String>,
    /// ids of known findings that explain deviations seen on this schedule
    pub known: Vec<String>,
    /// canonical final observation (for counting distinct outcomes)
    pub obs: String,
    /// conflict pairs observed: "objA:t0<t1"
    pub conflicts: Vec<String>,
}

#[derive(Default, Debug)]
pub struct Stats {
    pub schedules: u64,
    pub tree_nodes: u64,
    pub steps: u64,
    pub by_cost: BTreeMap<usize, u64>,
    pub distinct_obs: BTreeSet<String>,
    pub conflicts: BTreeSet<String>,
    pub leftover: usize,
    pub capped: bool,
    pub max_decisions: usize,
    pub violations: Vec<(String, SJob)>,
    pub known: BTreeMap<String, u64>,
    pub machinery: Vec<String>,
    pub sample: Option<(SJob, Vec<String>)>,
}

#[derive(PartialEq, Eq)]
struct Item {
    cost: usize,
    seq: u64,
    prefix: Vec<u8>,
}
impl Ord for Item {
    fn cmp(&self, o: &Self) -> std::cmp::Ordering {
        // min-heap on (cost, seq)
        (o.cost, o.seq).cmp(&(self.cost, self.seq))
    }
}
impl PartialOrd for Item {
    fn partial_cmp(&self, o: &Self) -> Option<std::cmp::Ordering> {
        Some(self.cmp(o))
    }
}

struct Src<'a> {
    scenario: String,
    bound: usize,
    heap: BinaryHeap<Item>,
    seq: u64,
    stats: &'a mut Stats,
    deadline: Instant,
    max_schedules: u64,
    stop_on_violation: bool,
}

pub fn preemptions(trace: &Trace, upto: usize) -> usize {
    trace.decisions[..upto].iter().filter(|d| matches!(d.running, Some(r) if r != d.chosen)).count()
}

impl JobSource for Src<'_> {
    fn next(&mut self) -> Option<Vec<u8>> {
        let it = self.heap.pop()?;
        let job = SJob { scenario: self.scenario.clone(), prefix: it.prefix, record_steps: false };
        Some(serde_json::to_vec(&job).unwrap())
    }
    fn stop(&mut self) -> bool {
        let s = Instant::now() >= self.deadline
            || self.stats.schedules >= self.max_schedules
            || (self.stop_on_violation && !self.stats.violations.is_empty())
            || !self.stats.machinery.is_empty();
        if s && !self.heap.is_empty() {
            self.stats.capped = true;
        }
        s
    }
    fn result(&mut self, job: &[u8], out: Outcome) {
        let job: SJob = serde_json::from_slice(job).unwrap();
        let res: SResult = match out {
            Outcome::Ok(b) => match serde_json::from_slice(&b) {
                Ok(r) => r,
                Err(e) => {
                    self.stats.machinery.push(format!("bad result: {}", e));
                    return;
                }
            },
            Outcome::Timeout => {
                self.stats.machinery.push(format!("child timeout on prefix {:?}", job.prefix));
                return;
            }
            Outcome::Signal(s) => {
                // a crash of the process under a legal schedule is a violation by itself
                self.stats.schedules += 1;
                self.stats.violations.push((format!("process died by signal {}", s), job));
                return;
            }
            Outcome::NoResult(c) => {
                self.stats.machinery.push(format!("child exited {} without result, prefix {:?}", c, job.prefix));
                return;
            }
        };
        let st = &mut *self.stats;
        st.schedules += 1;
        let Some(trace) = res.trace else {
            st.machinery.push("no trace".into());
            return;
        };
        st.tree_nodes += trace.decisions.len().saturating_sub(job.prefix.len()) as u64 + 1;
        st.steps += trace.steps as u64;
        st.max_decisions = st.max_decisions.max(trace.decisions.len());
        let cost = preemptions(&trace, trace.decisions.len());
        *st.by_cost.entry(cost).or_insert(0) += 1;
        st.distinct_obs.insert(res.obs.clone());
        for c in res.conflicts {
            st.conflicts.insert(c);
        }
        for k in res.known {
            *st.known.entry(k).or_insert(0) += 1;
        }
        if let End::Diverged(m) = &trace.end {
            st.machinery.push(format!("replay diverged: {} prefix={:?}", m, job.prefix));
            return;
        }
        if st.sample.is_none() && trace.decisions.len() >= 2 {
            st.sample = Some((
                SJob { scenario: job.scenario.clone(), prefix: trace.decisions.iter().map(|d| d.chosen).collect(), record_steps: false },
                trace.decisions.iter().map(|d| format!("t{}:{}", d.chosen, d.label)).collect(),
            ));
        }
        if !res.violations.is_empty() {
            let full = SJob {
                scenario: job.scenario.clone(),
                prefix: trace.decisions.iter().map(|d| d.chosen).collect(),
                record_steps: true,
            };
            for v in res.violations {
                if st.violations.len() < 50 {
                    st.violations.push((v, full.clone()));
                }
            }
        }
        // children: alternatives at decisions not fixed by the prefix
        for i in job.prefix.len()..trace.decisions.len() {
            let d = &trace.decisions[i];
            let before = preemptions(&trace, i);
            for &alt in &d.enabled {
                if alt == d.chosen {
                    continue;
                }
                let c = before + usize::from(matches!(d.running, Some(r) if r != alt));
                if c > self.bound {
                    continue;
                }
                let mut p: Vec<u8> = trace.decisions[..i].iter().map(|d| d.chosen).collect();
                p.push(alt);
                self.seq += 1;
                self.heap.push(Item { cost: c, seq: self.seq, prefix: p });
            }
        }
    }
}

pub struct ExploreCfg {
    pub bound: usize,
    pub deadline: Instant,
    pub max_schedules: u64,
    pub stop_on_violation: bool,
}

/// Runs `prefix` twice and compares what the two executions did at every decision (thread chosen,
/// label, enabled set), what they observed and what the oracle said. A difference means the harness
/// does not own all nondeterminism: a machinery error, never a verdict. Returns the decisions.
fn determinism_probe(pool: &mut Pool, scenario: &str, prefix: Vec<u8>, stats: &mut Stats) -> Option<Trace> {
    let job = serde_json::to_vec(&SJob { scenario: scenario.to_string(), prefix: prefix.clone(), record_steps: false }).unwrap();
    let mut outs: Vec<Outcome> = vec![];
    pool.run_list(vec![job.clone(), job], |_, o| outs.push(o));
    let mut sigs = vec![];
    let mut first = None;
    for o in outs {
        match o {
            Outcome::Ok(b) => match serde_json::from_slice::<SResult>(&b) {
                Ok(r) => {
                    let t = r.trace.clone();
                    sigs.push(format!(
                        "{:?} | {} | {:?}",
                        t.as_ref().map(|t| t.decisions.iter().map(|d| format!("{}:{}:{:?}", d.chosen, d.label, d.enabled)).collect::<Vec<_>>()),
                        r.obs,
                        r.violations
                    ));
                    first = first.or(t);
                }
                Err(e) => stats.machinery.push(format!("determinism probe: bad result: {}", e)),
            },
            // a crash is judged by the exploration proper
            _ => return None,
        }
    }
    if sigs.len() == 2 && sigs[0] != sigs[1] {
        stats.machinery.push(format!("schedule prefix {:?} was executed twice and behaved differently (uncontrolled nondeterminism): {} <> {}", prefix, sigs[0], sigs[1]));
    }
    first
}

/// Explores every schedule of `scenario` with at most `bound` preemptions (lowest cost first).
pub fn explore(pool: &mut Pool, scenario: &str, cfg: &ExploreCfg, stats: &mut Stats) {
    // replay-twice check on the default schedule and on the first schedule with a preemption
    if let Some(t) = determinism_probe(pool, scenario, vec![], stats) {
        if cfg.bound >= 1 {
            let alt = t.decisions.iter().enumerate().find_map(|(i, d)| {
                let other = d.enabled.iter().find(|&&e| e != d.chosen && matches!(d.running, Some(r) if r != e))?;
                let mut p: Vec<u8> = t.decisions[..i].iter().map(|d| d.chosen).collect();
                p.push(*other);
                Some(p)
            });
            if let Some(p) = alt {
                determinism_probe(pool, scenario, p, stats);
            }
        }
    }
    if !stats.machinery.is_empty() {
        return;
    }
    let mut src = Src {
        scenario: scenario.to_string(),
        bound: cfg.bound,
        heap: BinaryHeap::new(),
        seq: 0,
        stats,
        deadline: cfg.deadline,
        max_schedules: cfg.max_schedules,
        stop_on_violation: cfg.stop_on_violation,
    };
    src.heap.push(Item { cost: 0, seq: 0, prefix: vec![] });
    pool.drive(&mut src);
    src.stats.leftover += src.heap.len();
}
