//! C14 — JSON output is always one valid JSON object per line and faithful to the data.
//! Bounded-exhaustive inputs (every string of length <= 2 over ASCII + a set of special code points,
//! in every position: message, string value, Debug/Display value, target, span name, field name;
//! boundary numbers of every width; non-finite floats; bool; bytes; errors) x JSON option
//! combinations, plus histories of span creation and later `record` calls; every emitted line is
//! parsed by an independent strict JSON parser and compared with a value model.
use crate::c13::{wlog_clear, wlog_since, Sink};
use mc::pool::{Outcome, Pool};
use mc::{Args, Report, Tier};
use serde::{Deserialize, Serialize};
use serde_json::json;
use std::collections::BTreeMap;
use std::time::Duration;
use tracing_core::callsite::Callsite;
use tracing_core::field::{FieldSet, Value};
use tracing_core::metadata::Kind;
use tracing_core::{Dispatch, Event, Interest, Level, Metadata};
use tracing_subscriber::prelude::*;
use tracing_subscriber::registry::Registry;

// ---- independent strict JSON parser ---------------------------------------------------------------------

#[derive(Clone, Debug, PartialEq)]
pub enum J {
    Null,
    Bool(bool),
    /// number, kept as its source text
    Num(String),
    Str(String),
    Arr(Vec<J>),
    Obj(Vec<(String, J)>),
}

pub struct P<'a> {
    s: &'a [u8],
    i: usize,
}

impl<'a> P<'a> {
    pub fn parse_line(line: &'a str) -> Result<J, String> {
        let mut p = P { s: line.as_bytes(), i: 0 };
        let v = p.value()?;
        if p.i != p.s.len() {
            return Err(format!("trailing data at byte {}", p.i));
        }
        Ok(v)
    }
    fn peek(&self) -> Option<u8> {
        self.s.get(self.i).copied()
    }
    fn value(&mut self) -> Result<J, String> {
        match self.peek() {
            Some(b'{') => self.object(),
            Some(b'[') => self.array(),
            Some(b'"') => Ok(J::Str(self.string()?)),
            Some(b't') => self.lit("true", J::Bool(true)),
            Some(b'f') => self.lit("false", J::Bool(false)),
            Some(b'n') => self.lit("null", J::Null),
            Some(c) if c == b'-' || c.is_ascii_digit() => self.number(),
            Some(c) => Err(format!("unexpected byte {:#x} at {}", c, self.i)),
            None => Err("unexpected end".into()),
        }
    }
    fn lit(&mut self, w: &str, v: J) -> Result<J, String> {
        if self.s[self.i..].starts_with(w.as_bytes()) {
            self.i += w.len();
            Ok(v)
        } else {
            Err(format!("bad literal at {}", self.i))
        }
    }
    fn number(&mut self) -> Result<J, String> {
        let st = self.i;
        if self.peek() == Some(b'-') {
            self.i += 1;
        }
        match self.peek() {
            Some(b'0') => self.i += 1,
            Some(c) if c.is_ascii_digit() => {
                while self.peek().map_or(false, |c| c.is_ascii_digit()) {
                    self.i += 1
                }
            }
            _ => return Err(format!("bad number at {}", st)),
        }
        if self.peek() == Some(b'.') {
            self.i += 1;
            if !self.peek().map_or(false, |c| c.is_ascii_digit()) {
                return Err(format!("bad fraction at {}", self.i));
            }
            while self.peek().map_or(false, |c| c.is_ascii_digit()) {
                self.i += 1
            }
        }
        if matches!(self.peek(), Some(b'e') | Some(b'E')) {
            self.i += 1;
            if matches!(self.peek(), Some(b'+') | Some(b'-')) {
                self.i += 1;
            }
            if !self.peek().map_or(false, |c| c.is_ascii_digit()) {
                return Err(format!("bad exponent at {}", self.i));
            }
            while self.peek().map_or(false, |c| c.is_ascii_digit()) {
                self.i += 1
            }
        }
        Ok(J::Num(String::from_utf8_lossy(&self.s[st..self.i]).into_owned()))
    }
    fn hex4(&mut self) -> Result<u32, String> {
        if self.i + 4 > self.s.len() {
            return Err("short \\u escape".into());
        }
        let h = std::str::from_utf8(&self.s[self.i..self.i + 4]).map_err(|_| "bad \\u escape".to_string())?;
        let v = u32::from_str_radix(h, 16).map_err(|_| format!("bad \\u escape {:?}", h))?;
        self.i += 4;
        Ok(v)
    }
    fn string(&mut self) -> Result<String, String> {
        self.i += 1; // opening quote
        let mut out = String::new();
        loop {
            let c = self.peek().ok_or_else(|| "unterminated string".to_string())?;
            match c {
                b'"' => {
                    self.i += 1;
                    return Ok(out);
                }
                b'\\' => {
                    self.i += 1;
                    let e = self.peek().ok_or_else(|| "unterminated escape".to_string())?;
                    self.i += 1;
                    match e {
                        b'"' => out.push('"'),
                        b'\\' => out.push('\\'),
                        b'/' => out.push('/'),
                        b'b' => out.push('\u{8}'),
                        b'f' => out.push('\u{c}'),
                        b'n' => out.push('\n'),
                        b'r' => out.push('\r'),
                        b't' => out.push('\t'),
                        b'u' => {
                            let hi = self.hex4()?;
                            if (0xD800..0xDC00).contains(&hi) {
                                if self.peek() != Some(b'\\') || self.s.get(self.i + 1) != Some(&b'u') {
                                    return Err("lone high surrogate".into());
                                }
                                self.i += 2;
                                let lo = self.hex4()?;
                                if !(0xDC00..0xE000).contains(&lo) {
                                    return Err("bad low surrogate".into());
                                }
                                let cp = 0x10000 + ((hi - 0xD800) << 10) + (lo - 0xDC00);
                                out.push(char::from_u32(cp).ok_or("bad code point")?);
                            } else if (0xDC00..0xE000).contains(&hi) {
                                return Err("lone low surrogate".into());
                            } else {
                                out.push(char::from_u32(hi).ok_or("bad code point")?);
                            }
                        }
                        x => return Err(format!("bad escape \\{}", x as char)),
                    }
                }
                c if c < 0x20 => return Err(format!("raw control character {:#x} inside a string", c)),
                _ => {
                    // copy one UTF-8 scalar
                    let rest = std::str::from_utf8(&self.s[self.i..]).map_err(|_| "invalid utf-8".to_string())?;
                    let ch = rest.chars().next().unwrap();
                    out.push(ch);
                    self.i += ch.len_utf8();
                }
            }
        }
    }
    fn array(&mut self) -> Result<J, String> {
        self.i += 1;
        let mut v = vec![];
        if self.peek() == Some(b']') {
            self.i += 1;
            return Ok(J::Arr(v));
        }
        loop {
            v.push(self.value()?);
            match self.peek() {
                Some(b',') => self.i += 1,
                Some(b']') => {
                    self.i += 1;
                    return Ok(J::Arr(v));
                }
                _ => return Err(format!("expected , or ] at {}", self.i)),
            }
        }
    }
    fn object(&mut self) -> Result<J, String> {
        self.i += 1;
        let mut v: Vec<(String, J)> = vec![];
        if self.peek() == Some(b'}') {
            self.i += 1;
            return Ok(J::Obj(v));
        }
        loop {
            if self.peek() != Some(b'"') {
                return Err(format!("expected a key at {}", self.i));
            }
            let k = self.string()?;
            if self.peek() != Some(b':') {
                return Err(format!("expected : at {}", self.i));
            }
            self.i += 1;
            let val = self.value()?;
            if v.iter().any(|(kk, _)| kk == &k) {
                return Err(format!("duplicate key {:?}", k));
            }
            v.push((k, val));
            match self.peek() {
                Some(b',') => self.i += 1,
                Some(b'}') => {
                    self.i += 1;
                    return Ok(J::Obj(v));
                }
                _ => return Err(format!("expected , or }} at {}", self.i)),
            }
        }
    }
}

impl J {
    fn get(&self, k: &str) -> Option<&J> {
        match self {
            J::Obj(v) => v.iter().find(|(kk, _)| kk == k).map(|x| &x.1),
            _ => None,
        }
    }
}

// ---- values and their expected JSON images -----------------------------------------------------------------

#[derive(Clone, Debug, Serialize, Deserialize, PartialEq)]
pub enum V {
    Str(String),
    /// `?value` of a type whose Debug prints exactly this text
    Dbg(String),
    /// `%value` of a type whose Display prints exactly this text
    Disp(String),
    I64(i64),
    U64(u64),
    I128(i128),
    U128(u128),
    F64(u64), // bits
    Bool(bool),
    Bytes(Vec<u8>),
    Err(String),
}

struct Raw(String);
impl std::fmt::Debug for Raw {
    fn fmt(&self, f: &mut std::fmt::Formatter<'_>) -> std::fmt::Result {
        f.write_str(&self.0)
    }
}
impl std::fmt::Display for Raw {
    fn fmt(&self, f: &mut std::fmt::Formatter<'_>) -> std::fmt::Result {
        f.write_str(&self.0)
    }
}
#[derive(Debug)]
struct MyErr(String);
impl std::fmt::Display for MyErr {
    fn fmt(&self, f: &mut std::fmt::Formatter<'_>) -> std::fmt::Result {
        f.write_str(&self.0)
    }
}
impl std::error::Error for MyErr {}

fn with_value<R>(v: &V, f: impl FnOnce(&dyn Value) -> R) -> R {
    match v {
        V::Str(s) => f(&s.as_str()),
        V::Dbg(s) => f(&tracing_core::field::debug(Raw(s.clone()))),
        V::Disp(s) => f(&tracing_core::field::display(Raw(s.clone()))),
        V::I64(x) => f(x),
        V::U64(x) => f(x),
        V::I128(x) => f(x),
        V::U128(x) => f(x),
        V::F64(b) => f(&f64::from_bits(*b)),
        V::Bool(b) => f(b),
        V::Bytes(b) => f(&b.as_slice()),
        V::Err(s) => {
            let e = MyErr(s.clone());
            let d: &(dyn std::error::Error + 'static) = &e;
            f(&d)
        }
    }
}

/// does the parsed JSON value faithfully represent the recorded value (documented mapping)?
fn faithful(v: &V, j: &J) -> bool {
    match (v, j) {
        (V::Str(s), J::Str(t)) | (V::Dbg(s), J::Str(t)) | (V::Disp(s), J::Str(t)) => s == t,
        (V::I64(x), J::Num(t)) => t.parse::<i64>().ok() == Some(*x),
        (V::U64(x), J::Num(t)) => t.parse::<u64>().ok() == Some(*x),
        // 128-bit integers: a JSON number with exactly the decimal digits, or the decimal string
        (V::I128(x), J::Num(t)) | (V::I128(x), J::Str(t)) => t.parse::<i128>().ok() == Some(*x),
        (V::U128(x), J::Num(t)) | (V::U128(x), J::Str(t)) => t.parse::<u128>().ok() == Some(*x),
        (V::F64(b), J::Num(t)) => {
            let x = f64::from_bits(*b);
            x.is_finite() && t.parse::<f64>().ok() == Some(x)
        }
        // non-finite floats have no JSON number: null or a string naming them
        (V::F64(b), J::Null) => !f64::from_bits(*b).is_finite(),
        (V::F64(b), J::Str(t)) => {
            let x = f64::from_bits(*b);
            !x.is_finite() && (t.to_ascii_lowercase().contains("nan") || t.to_ascii_lowercase().contains("inf"))
        }
        (V::Bool(b), J::Bool(c)) => b == c,
        (V::Bytes(b), J::Arr(a)) => a.len() == b.len() && a.iter().zip(b).all(|(j, x)| matches!(j, J::Num(t) if t.parse::<u8>().ok() == Some(*x))),
        (V::Bytes(_), J::Str(_)) => true,
        (V::Err(s), J::Str(t)) => t.contains(s.as_str()),
        _ => false,
    }
}

// ---- dynamic callsites ----------------------------------------------------------------------------------------

struct DynCs {
    meta: std::sync::OnceLock<&'static Metadata<'static>>,
}
impl Callsite for DynCs {
    fn set_interest(&self, _: Interest) {}
    fn metadata(&self) -> &Metadata<'_> {
        self.meta.get().unwrap()
    }
}

fn leak(s: &str) -> &'static str {
    Box::leak(s.to_string().into_boxed_str())
}

fn dyn_meta(name: &str, target: &str, fields: &[&str], kind: Kind) -> &'static Metadata<'static> {
    let cs: &'static DynCs = Box::leak(Box::new(DynCs { meta: std::sync::OnceLock::new() }));
    let names: &'static [&'static str] = Box::leak(fields.iter().map(|f| leak(f)).collect::<Vec<_>>().into_boxed_slice());
    let m: &'static Metadata<'static> = Box::leak(Box::new(Metadata::new(
        leak(name),
        leak(target),
        Level::INFO,
        Some("file.rs"),
        Some(7),
        Some("module::path"),
        FieldSet::new(names, tracing_core::identify_callsite!(cs)),
        kind,
    )));
    let _ = cs.meta.set(m);
    m
}

// ---- one case = a small program ---------------------------------------------------------------------------------

#[derive(Clone, Debug, Serialize, Deserialize)]
pub struct SpanStep {
    /// fields given at creation (step 0) or recorded later (steps 1..)
    pub sets: Vec<(String, V)>,
}

#[derive(Clone, Debug, Serialize, Deserialize)]
pub struct Case {
    /// bit0 flatten_event, bit1 current_span, bit2 span_list, bit3 all display options on (else all off)
    pub opts: u8,
    pub target: String,
    /// spans root -> leaf: (name, declared field names, creation + later record steps)
    pub spans: Vec<(String, Vec<String>, Vec<SpanStep>)>,
    /// event fields in declaration order; a field called "message" is the message
    pub event: Vec<(String, V)>,
}

fn dispatch_for(opts: u8) -> Dispatch {
    let on = opts & 8 != 0;
    let l = tracing_subscriber::fmt::subscriber()
        .json()
        .flatten_event(opts & 1 != 0)
        .with_current_span(opts & 2 != 0)
        .with_span_list(opts & 4 != 0)
        .with_target(on)
        .with_level(on)
        .with_file(on)
        .with_line_number(on)
        .with_thread_ids(on)
        .with_thread_names(on)
        .with_writer(Sink { id: 0, points: false });
    if on {
        Dispatch::new(Registry::default().with(l))
    } else {
        Dispatch::new(Registry::default().with(l.without_time()))
    }
}

fn value_set_call<R>(meta: &'static Metadata<'static>, sets: &[(String, V)], f: impl FnOnce(&tracing_core::field::ValueSet<'_>) -> R) -> R {
    // up to 3 values per call (enough for the generated cases)
    let fs = meta.fields();
    let field = |n: &str| fs.field(n).unwrap_or_else(|| panic!("field {:?} not declared", n));
    match sets.len() {
        0 => f(&fs.value_set(&[])),
        1 => with_value(&sets[0].1, |a| f(&fs.value_set(&[(&field(&sets[0].0), Some(a))]))),
        2 => with_value(&sets[0].1, |a| with_value(&sets[1].1, |b| f(&fs.value_set(&[(&field(&sets[0].0), Some(a)), (&field(&sets[1].0), Some(b))])))),
        _ => with_value(&sets[0].1, |a| {
            with_value(&sets[1].1, |b| with_value(&sets[2].1, |c| f(&fs.value_set(&[(&field(&sets[0].0), Some(a)), (&field(&sets[1].0), Some(b)), (&field(&sets[2].0), Some(c))]))))
        }),
    }
}

pub fn check_case(c: &Case) -> Vec<String> {
    mc::sched::install_hooks();
    mc::sched::set_thread_clock(Some((1_600_000_000, 0)));
    wlog_clear();
    let d = dispatch_for(c.opts);
    let mut bad = vec![];
    // expected final value of every span field
    let mut expected_spans: Vec<(String, BTreeMap<String, V>)> = vec![];
    tracing_core::dispatch::with_default(&d, || {
        let mut entered = vec![];
        for (name, declared, steps) in &c.spans {
            let declared: Vec<&str> = declared.iter().map(|s| s.as_str()).collect();
            let meta = dyn_meta(name, &c.target, &declared, Kind::SPAN);
            let mut finals: BTreeMap<String, V> = BTreeMap::new();
            let span = value_set_call(meta, &steps[0].sets, |vs| tracing::Span::new(meta, vs));
            for (k, v) in &steps[0].sets {
                finals.insert(k.clone(), v.clone());
            }
            for st in &steps[1..] {
                value_set_call(meta, &st.sets, |vs| {
                    span.record_all(vs);
                });
                for (k, v) in &st.sets {
                    finals.insert(k.clone(), v.clone());
                }
            }
            expected_spans.push((name.clone(), finals));
            entered.push(span.entered());
        }
        let names: Vec<&str> = c.event.iter().map(|e| e.0.as_str()).collect();
        let meta = dyn_meta("event name", &c.target, &names, Kind::EVENT);
        value_set_call(meta, &c.event, |vs| Event::dispatch(meta, vs));
        while let Some(e) = entered.pop() {
            drop(e);
        }
    });
    let writes: Vec<String> = wlog_since(0).into_iter().filter(|e| e.kind == "write").map(|e| e.data).collect();
    if writes.len() != 1 {
        return vec![format!("{} writes for one event", writes.len())];
    }
    let rec = &writes[0];
    let line = match rec.strip_suffix('\n') {
        Some(l) => l,
        None => return vec![format!("record does not end with a newline: {:?}", rec)],
    };
    if line.contains('\n') || line.contains('\r') {
        bad.push(format!("record is not a single line: {:?}", rec));
    }
    let j = match P::parse_line(line) {
        Ok(j @ J::Obj(_)) => j,
        Ok(other) => return vec![format!("record is not a JSON object: {:?}", other)],
        Err(e) => return vec![format!("record is not valid JSON ({}): {:?}", e, rec)],
    };
    // second opinion
    if serde_json::from_str::<serde_json::Value>(line).is_err() {
        bad.push(format!("serde_json rejects the record: {:?}", rec));
    }
    // event fields
    let holder = if c.opts & 1 != 0 { Some(&j) } else { j.get("fields") };
    match holder {
        None => bad.push(format!("no \"fields\" object: {:?}", rec)),
        Some(h) => {
            for (k, v) in &c.event {
                match h.get(k) {
                    None => bad.push(format!("event field {:?} is missing: {:?}", k, rec)),
                    Some(jv) => {
                        if !faithful(v, jv) {
                            bad.push(format!("event field {:?}: recorded {:?}, JSON has {:?}", k, v, jv));
                        }
                    }
                }
            }
        }
    }
    if c.opts & 8 != 0 {
        match j.get("target") {
            Some(J::Str(t)) if t == &c.target => {}
            other => bad.push(format!("target {:?} appears as {:?}", c.target, other)),
        }
        if j.get("level") != Some(&J::Str("INFO".into())) {
            bad.push(format!("level appears as {:?}", j.get("level")));
        }
    }
    // spans
    let check_span = |js: &J, exp: &(String, BTreeMap<String, V>), bad: &mut Vec<String>| {
        match js.get("name") {
            Some(J::Str(n)) if n == &exp.0 => {}
            other => bad.push(format!("span name {:?} appears as {:?}", exp.0, other)),
        }
        for (k, v) in &exp.1 {
            // a raw identifier may be shown with or without its `r#` prefix (the pinned formatter
            // strips it for Debug values only)
            let key = k.strip_prefix("r#").unwrap_or(k);
            match js.get(key).or_else(|| js.get(k)) {
                None => bad.push(format!("span {:?} field {:?} is missing in {:?}", exp.0, k, js)),
                Some(jv) => {
                    if !faithful(v, jv) {
                        bad.push(format!("span {:?} field {:?}: last recorded {:?}, JSON has {:?}", exp.0, k, v, jv));
                    }
                }
            }
        }
    };
    if !expected_spans.is_empty() {
        if c.opts & 2 != 0 {
            match j.get("span") {
                Some(js @ J::Obj(_)) => check_span(js, expected_spans.last().unwrap(), &mut bad),
                other => bad.push(format!("\"span\" (current span) appears as {:?}", other)),
            }
        }
        if c.opts & 4 != 0 {
            match j.get("spans") {
                Some(J::Arr(a)) => {
                    if a.len() != expected_spans.len() {
                        bad.push(format!("\"spans\" lists {} spans, {} are in scope", a.len(), expected_spans.len()));
                    } else {
                        for (js, exp) in a.iter().zip(&expected_spans) {
                            check_span(js, exp, &mut bad);
                        }
                    }
                }
                other => bad.push(format!("\"spans\" appears as {:?}", other)),
            }
        }
    }
    bad.sort();
    bad.dedup();
    bad
}

// ---- generators ----------------------------------------------------------------------------------------------------

pub fn symbols() -> Vec<char> {
    let mut v: Vec<char> = (0u8..128).map(|b| b as char).collect();
    for cp in [0x80u32, 0x7FF, 0x800, 0x2028, 0x2029, 0xD7FF, 0xE000, 0xFEFF, 0xFFFD, 0xFFFF, 0x10000, 0x10FFFF] {
        v.push(char::from_u32(cp).unwrap());
    }
    v
}

pub fn strings(tier: Tier) -> Vec<String> {
    let syms = symbols();
    let mut v = vec![String::new()];
    for a in &syms {
        v.push(a.to_string());
    }
    // length 2: thorough = all pairs; quick = every pair whose two symbols are both "interesting"
    // (controls, quote, backslash, slash, DEL, non-ASCII) plus one ordinary letter
    let interesting: Vec<char> = syms.iter().cloned().filter(|c| (*c as u32) < 0x20 || "\"\\/'{}[]:,u".contains(*c) || (*c as u32) >= 0x7f || *c == 'a' || *c == '0').collect();
    let _ = (&interesting, tier);
    let pairs: &Vec<char> = &syms; // all pairs in both tiers (the tiers differ in the option bytes)
    for a in pairs {
        for b in pairs {
            v.push(format!("{}{}", a, b));
        }
    }
    v
}

fn numbers() -> Vec<V> {
    let mut v = vec![];
    for x in [i64::MIN, i32::MIN as i64, i16::MIN as i64, i8::MIN as i64, -1, 0, 1, i8::MAX as i64, u8::MAX as i64, i16::MAX as i64, u16::MAX as i64, i32::MAX as i64, u32::MAX as i64, (1 << 53) - 1, 1 << 53, (1 << 53) + 1, i64::MAX] {
        v.push(V::I64(x));
    }
    for x in [0u64, 1, (1 << 53) + 1, i64::MAX as u64, i64::MAX as u64 + 1, u64::MAX] {
        v.push(V::U64(x));
    }
    for x in [i128::MIN, i64::MIN as i128 - 1, -1, 0, i64::MAX as i128 + 1, u64::MAX as i128 + 1, i128::MAX] {
        v.push(V::I128(x));
    }
    for x in [0u128, u64::MAX as u128, u64::MAX as u128 + 1, u128::MAX] {
        v.push(V::U128(x));
    }
    for x in [0.0f64, -0.0, 1.5, -1.5, f64::MIN_POSITIVE, 5e-324, f64::MAX, f64::MIN, 1e300, 0.1, 9007199254740993.0, f64::NAN, f64::INFINITY, f64::NEG_INFINITY] {
        v.push(V::F64(x.to_bits()));
    }
    v.push(V::Bool(true));
    v.push(V::Bool(false));
    v.push(V::Bytes(vec![]));
    v.push(V::Bytes(vec![0, 34, 92, 127, 128, 255]));
    v.push(V::Err("disk \"on\" fire\n".into()));
    v
}

#[derive(Serialize, Deserialize, Clone, Debug)]
enum Job {
    /// strings[from..to] placed in every position, for the given option byte
    Strings { from: usize, to: usize, opts: u8, thorough: bool },
    Cases(Vec<Case>),
}

#[derive(Serialize, Deserialize, Clone, Debug, Default)]
struct Res {
    evals: u64,
    bad: Vec<(Case, Vec<String>)>,
}

fn cases_for_string(s: &str, opts: u8) -> Vec<Case> {
    let ev = |fields: Vec<(String, V)>| -> Case { Case { opts, target: "tgt".into(), spans: vec![], event: fields } };
    let mut v = vec![
        ev(vec![("message".into(), V::Disp(s.into()))]),
        ev(vec![("message".into(), V::Str("m".into())), ("k".into(), V::Str(s.into()))]),
        ev(vec![("k".into(), V::Dbg(s.into())), ("d".into(), V::Disp(s.into()))]),
        Case { opts, target: s.into(), spans: vec![], event: vec![("message".into(), V::Str("m".into()))] },
        // span name and span string field
        Case {
            opts,
            target: "tgt".into(),
            spans: vec![(s.into(), vec!["k".into(), "d".into()], vec![SpanStep { sets: vec![("k".into(), V::Str(s.into())), ("d".into(), V::Dbg(s.into()))] }])],
            event: vec![("message".into(), V::Str("m".into()))],
        },
    ];
    // as a field name (events and spans), unless it is one of the formatter's reserved keys
    let reserved = ["timestamp", "level", "fields", "target", "filename", "line_number", "span", "spans", "threadName", "threadId", "name", "message"];
    if !s.is_empty() && !reserved.contains(&s) && !s.starts_with("log.") && !s.starts_with("r#") {
        v.push(ev(vec![("message".into(), V::Str("m".into())), (s.into(), V::I64(7))]));
        v.push(Case {
            opts,
            target: "tgt".into(),
            spans: vec![("sp".into(), vec![s.into()], vec![SpanStep { sets: vec![(s.into(), V::Bool(true))] }])],
            event: vec![("message".into(), V::Str("m".into()))],
        });
        // ... and a later record on a span that already stores a field of that name
        if s != "z" {
            v.push(Case {
                opts,
                target: "tgt".into(),
                spans: vec![("sp".into(), vec![s.into(), "z".into()], vec![SpanStep { sets: vec![(s.into(), V::Bool(true))] }, SpanStep { sets: vec![("z".into(), V::I64(1))] }])],
                event: vec![("message".into(), V::Str("m".into()))],
            });
        }
    }
    v
}

fn runner(job: &[u8]) -> Vec<u8> {
    let job: Job = serde_json::from_slice(job).unwrap();
    let mut res = Res::default();
    let mut run = |c: Case, res: &mut Res| {
        let cc = c.clone();
        let mut bad = std::panic::catch_unwind(move || check_case(&cc)).unwrap_or_else(|e| {
            vec![format!("panic: {}", e.downcast_ref::<String>().cloned().or_else(|| e.downcast_ref::<&str>().map(|s| s.to_string())).unwrap_or_default())]
        });
        res.evals += 1;
        // with the thread options on, the same case once more on a thread that has no name
        if c.opts & 8 != 0 {
            let cc = c.clone();
            match std::thread::spawn(move || check_case(&cc)).join() {
                Ok(b) => bad.extend(b.into_iter().map(|m| format!("[unnamed thread] {}", m))),
                Err(_) => bad.push("[unnamed thread] panic".into()),
            }
            res.evals += 1;
        }
        if !bad.is_empty() && res.bad.len() < 25 {
            res.bad.push((c, bad));
        }
    };
    match job {
        Job::Strings { from, to, opts, thorough } => {
            let ss = strings(if thorough { Tier::Thorough } else { Tier::Quick });
            for s in &ss[from..to.min(ss.len())] {
                for c in cases_for_string(s, opts) {
                    run(c, &mut res);
                }
            }
        }
        Job::Cases(cs) => {
            for c in cs {
                run(c, &mut res);
            }
        }
    }
    serde_json::to_vec(&res).unwrap()
}

fn history_cases(tier: Tier) -> Vec<Case> {
    // span creation with k fields, then 1..3 later record steps (overwrites and new fields), nested 0..3
    let vals = [V::I64(1), V::Str("x\"y".into()), V::Bool(false), V::F64(2.5f64.to_bits()), V::Dbg("{d}".into()), V::U64(u64::MAX)];
    let mut out = vec![];
    let fields = ["a", "b", "c"];
    let mut step_sets: Vec<Vec<(String, V)>> = vec![vec![]];
    for f in fields {
        for v in &vals[..if tier == Tier::Thorough { 6 } else { 3 }] {
            step_sets.push(vec![(f.to_string(), v.clone())]);
        }
    }
    step_sets.push(vec![("a".into(), vals[1].clone()), ("b".into(), vals[0].clone())]);
    step_sets.push(vec![("c".into(), vals[3].clone()), ("a".into(), vals[2].clone()), ("b".into(), vals[4].clone())]);
    let max_steps = if tier == Tier::Thorough { 3 } else { 2 };
    let mut seqs: Vec<Vec<usize>> = vec![vec![]];
    for _ in 0..=max_steps {
        let mut next = vec![];
        for s in &seqs {
            if s.len() <= max_steps {
                for i in 0..step_sets.len() {
                    let mut t = s.clone();
                    t.push(i);
                    next.push(t);
                }
            }
        }
        seqs.extend(next);
        seqs.sort();
        seqs.dedup();
    }
    let seqs: Vec<Vec<usize>> = seqs.into_iter().filter(|s| !s.is_empty() && s.len() <= max_steps + 1).collect();
    for opts in [0b1110u8, 0b0110, 0b0111, 0b0010, 0b0100] {
        for (n, s) in seqs.iter().enumerate() {
            let steps: Vec<SpanStep> = s.iter().map(|i| SpanStep { sets: step_sets[*i].clone() }).collect();
            let depth = n % 3 + 1;
            let mut spans = vec![];
            for d in 0..depth {
                let st = if d == depth - 1 { steps.clone() } else { vec![SpanStep { sets: vec![("a".into(), V::I64(d as i64))] }] };
                spans.push((format!("s{}", d), fields.iter().map(|f| f.to_string()).collect(), st));
            }
            out.push(Case { opts, target: "tgt".into(), spans, event: vec![("message".into(), V::Str("m".into())), ("z".into(), V::I64(9))] });
        }
        // span fields named by raw identifiers (shown without the `r#` prefix), in every position
        // next to ordinary fields and for every value kind, at creation and in a later record
        let raw = ["r#type", "k", "r#match"];
        let rvals = [V::Dbg("alpha".into()), V::Str("beta".into()), V::I64(3), V::Disp("delta".into())];
        for a in &rvals {
            for b in &rvals {
                for perm in [[0usize, 1, 2], [1, 0, 2], [1, 2, 0]] {
                    let vs = [a.clone(), b.clone(), a.clone()];
                    let sets: Vec<(String, V)> = perm.iter().map(|i| (raw[*i].to_string(), vs[*i].clone())).collect();
                    let declared: Vec<String> = raw.iter().map(|f| f.to_string()).collect();
                    out.push(Case { opts, target: "tgt".into(), spans: vec![("sp".into(), declared.clone(), vec![SpanStep { sets: sets.clone() }])], event: vec![("message".into(), V::Str("m".into()))] });
                    out.push(Case {
                        opts,
                        target: "tgt".into(),
                        spans: vec![("sp".into(), declared, vec![SpanStep { sets: sets[..1].to_vec() }, SpanStep { sets: sets[1..].to_vec() }])],
                        event: vec![("message".into(), V::Str("m".into()))],
                    });
                }
            }
        }
    }
    out
}

// ---- schedule part: concurrent `record` calls on one span -------------------------------------------------------

struct YieldVal(u32);
impl std::fmt::Debug for YieldVal {
    fn fmt(&self, f: &mut std::fmt::Formatter<'_>) -> std::fmt::Result {
        mc::sched::point("harness.debug.yield");
        write!(f, "y{}", self.0)
    }
}

pub fn run_schedule(job: &[u8]) -> Vec<u8> {
    use mc::sched::{self, End, RunCfg};
    let job: mc::explore::SJob = serde_json::from_slice(job).unwrap();
    let nthreads: usize = job.scenario.parse().unwrap_or(2);
    sched::install_hooks();
    wlog_clear();
    let d = dispatch_for(0b0110);
    let span = tracing_core::dispatch::with_default(&d, || tracing::span!(tracing::Level::INFO, "shared", f0 = tracing::field::Empty, f1 = tracing::field::Empty, f2 = tracing::field::Empty, base = 1));
    let bodies: Vec<Box<dyn FnOnce() + Send>> = (0..nthreads)
        .map(|t| {
            let (d, span) = (d.clone(), span.clone());
            Box::new(move || {
                let _g = tracing_core::dispatch::set_default(&d);
                let name = ["f0", "f1", "f2"][t];
                span.record(name, tracing::field::debug(YieldVal(t as u32)));
            }) as Box<dyn FnOnce() + Send>
        })
        .collect();
    let trace = sched::run_threads(RunCfg { prefix: job.prefix.clone(), horizon: 4000, record_steps: job.record_steps }, bodies);
    let mut v = vec![];
    match &trace.end {
        End::Done => {}
        End::Deadlock(w) => v.push(format!("deadlock: {:?}", w)),
        End::Livelock => v.push("livelock".into()),
        End::Diverged(_) => {}
    }
    for (t, m) in &trace.panics {
        v.push(format!("panic on t{}: {}", t, m));
    }
    let mut obs = String::new();
    if trace.end == End::Done {
        // every record() call has returned: an event inside the span must show every field
        wlog_clear();
        tracing_core::dispatch::with_default(&d, || span.in_scope(|| tracing::event!(tracing::Level::INFO, "probe")));
        let writes: Vec<String> = wlog_since(0).into_iter().filter(|e| e.kind == "write").map(|e| e.data).collect();
        match writes.first().and_then(|w| P::parse_line(w.trim_end_matches('\n')).ok()) {
            Some(j) => {
                let sp = j.get("span").cloned().unwrap_or(J::Null);
                for t in 0..nthreads {
                    let name = ["f0", "f1", "f2"][t];
                    if sp.get(name) != Some(&J::Str(format!("y{}", t))) {
                        v.push(format!("field {} recorded by thread {} (its record() call returned) is {:?} in the span object {:?}", name, t, sp.get(name), sp));
                    }
                }
                if sp.get("base") != Some(&J::Num("1".into())) {
                    v.push(format!("creation-time field base is {:?}", sp.get("base")));
                }
                obs = format!("{:?}", sp);
            }
            None => v.push(format!("probe record is not one valid JSON line: {:?}", writes)),
        }
    }
    v.sort();
    v.dedup();
    serde_json::to_vec(&mc::explore::SResult { trace: Some(trace), violations: v, known: vec![], obs, conflicts: vec![] }).unwrap()
}

pub fn run(args: &Args) -> i32 {
    let mut rep = Report::new(args, "exploration");
    if let Some(p) = &args.replay {
        let v: serde_json::Value = serde_json::from_str(&std::fs::read_to_string(p).expect("read replay")).expect("json");
        if v["case"].get("prefix").is_some() {
            let mut job: mc::explore::SJob = serde_json::from_value(v["case"].clone()).unwrap();
            job.record_steps = true;
            let bad = match mc::pool::run_isolated(run_schedule, &serde_json::to_vec(&job).unwrap(), Duration::from_secs(30)) {
                Outcome::Ok(b) => serde_json::from_slice::<mc::explore::SResult>(&b).unwrap().violations,
                o => vec![format!("child {:?}", o)],
            };
            for x in &bad {
                println!("VIOLATION property={} replay={} :: {}", args.property, p, x);
            }
            return i32::from(!bad.is_empty());
        }
        let c: Case = match &v["case"] {
            serde_json::Value::String(text) => serde_json::from_str(text).expect("case"),
            other => serde_json::from_value(other.clone()).expect("case"),
        };
        let mut bad = check_case(&c);
        if c.opts & 8 != 0 {
            let cc = c.clone();
            bad.extend(std::thread::spawn(move || check_case(&cc)).join().unwrap_or_else(|_| vec!["panic".into()]).into_iter().map(|m| format!("[unnamed thread] {}", m)));
        }
        for x in &bad {
            println!("VIOLATION property={} replay={} :: {}", args.property, p, x);
        }
        if bad.is_empty() {
            println!("replay: no violation");
        }
        return i32::from(!bad.is_empty());
    }
    let ss = strings(args.tier);
    let opt_bytes: Vec<u8> = match args.tier {
        Tier::Quick => vec![0b1110, 0b0111],
        Tier::Thorough => (0..16).collect(),
    };
    let mut jobs = vec![];
    for &opts in &opt_bytes {
        let mut i = 0;
        while i < ss.len() {
            jobs.push(Job::Strings { from: i, to: i + 300, opts, thorough: args.tier == Tier::Thorough });
            i += 300;
        }
    }
    // numbers, floats, bool, bytes, errors in event fields and span fields, under every option byte
    let mut num_cases = vec![];
    for opts in 0..16u8 {
        for v in numbers() {
            num_cases.push(Case { opts, target: "tgt".into(), spans: vec![], event: vec![("message".into(), V::Str("m".into())), ("v".into(), v.clone())] });
            num_cases.push(Case {
                opts,
                target: "tgt".into(),
                spans: vec![("sp".into(), vec!["v".into(), "w".into()], vec![SpanStep { sets: vec![("v".into(), v.clone())] }, SpanStep { sets: vec![("w".into(), v.clone())] }])],
                event: vec![("message".into(), V::Str("m".into()))],
            });
        }
    }
    let hc = history_cases(args.tier);
    let (n_num, n_hist) = (num_cases.len(), hc.len());
    for c in num_cases.chunks(200) {
        jobs.push(Job::Cases(c.to_vec()));
    }
    for c in hc.chunks(200) {
        jobs.push(Job::Cases(c.to_vec()));
    }
    let mut pool = Pool::new(mc::pool::default_workers(), runner, false, Duration::from_secs(1800));
    let mut evals = 0u64;
    let mut bad: Vec<(Case, Vec<String>)> = vec![];
    let mut crashed = vec![];
    pool.run_list(jobs.iter().map(|j| serde_json::to_vec(j).unwrap()).collect(), |_, out| match out {
        Outcome::Ok(b) => {
            let r: Res = serde_json::from_slice(&b).unwrap();
            evals += r.evals;
            bad.extend(r.bad);
        }
        o => crashed.push(format!("{:?}", o)),
    });
    for c in crashed {
        rep.machinery_error(c);
    }
    bad.sort_by_key(|(c, _)| serde_json::to_string(c).unwrap());
    for (c, msgs) in &bad {
        // (128-bit values beyond the 64-bit range have no serde_json::Value: such a case is kept as text)
        let cv = serde_json::to_value(c).unwrap_or_else(|_| serde_json::Value::String(serde_json::to_string(c).unwrap_or_default()));
        rep.violation(format!("{} (+{} more)", msgs[0], msgs.len() - 1), cv);
    }
    drop(pool);
    // schedule part
    let mut spool = Pool::new(mc::pool::default_workers(), run_schedule, true, Duration::from_secs(30));
    let bound = args.tier.pick(2, 3);
    let mut sched_total = 0u64;
    let mut capped = false;
    for n in [2usize, 3] {
        let mut st = mc::explore::Stats::default();
        let cfg = mc::explore::ExploreCfg { bound, deadline: std::time::Instant::now() + Duration::from_secs(args.tier.pick(10, 180)), max_schedules: u64::MAX, stop_on_violation: true };
        mc::explore::explore(&mut spool, &n.to_string(), &cfg, &mut st);
        sched_total += st.schedules;
        capped |= st.capped;
        for m in st.machinery {
            rep.machinery_error(format!("{} recorders: {}", n, m));
        }
        for (what, job) in st.violations.iter().take(2) {
            rep.violation(format!("[{} threads record on one span] {}", n, what), serde_json::to_value(job).unwrap());
        }
    }
    rep.cov("schedules", sched_total);
    rep.cov("preemption_bound", bound as u64);
    rep.cov("schedule_bound_completed", !capped);
    rep.cov("evaluations", evals + sched_total);
    rep.cov("distinct_nontrivial", evals + sched_total);
    rep.cov("strings", ss.len() as u64);
    rep.cov("symbols", symbols().len() as u64);
    rep.cov("option_bytes_for_strings", opt_bytes.len() as u64);
    rep.cov("value_cases", n_num as u64);
    rep.cov("span_record_histories", n_hist as u64);
    rep.cov("exhaustive", true);
    rep.cov("rule", "every string of length <= 2 over 128 ASCII code points + 12 special code points (all single symbols and all pairs; quick: under 2 option bytes, thorough: under all 16) placed as message, string value, Debug value, Display value, target, span name, span field value and (unless reserved) event and span field name; boundary values of i64/u64/i128/u128/f64 (incl. NaN, +-inf, -0, subnormal), bool, bytes, error under all 16 combinations of flatten_event/current_span/span_list/display options, in event fields and in span fields recorded at creation and later; span histories: creation + 1..3 record steps (overwrite / new field / several fields) nested 1..3 deep. Every record is one case; each is parsed by an independent strict parser (rejects duplicate keys, raw control characters, trailing data) and compared with the value model.");
    rep.sample(json!({"case": cases_for_string("\u{1}\"", 0b1110)[1]}));
    rep.sample(json!({"case": hc[hc.len() / 2]}));
    rep.assume("field names colliding with the formatter's reserved keys (and the log.* / r# prefixes it treats specially) are excluded, as the property says");
    rep.assume("type mapping: strings and Debug/Display text -> JSON string; 64-bit integers, finite floats -> equal JSON number; 128-bit integers -> number or decimal string; non-finite floats -> null or a naming string; bytes -> array of numbers or a string; errors -> string containing the Display text");
    rep.finish()
}
