//! C20 — the default timestamp is the correct UTC calendar time for every instant.
//! Complete sweeps (no sampling) through the real `SystemTime::format_time` entry point with the
//! clock seam supplying the instant; oracle = an independent days->civil algorithm (Hinnant) on
//! exact integers, cross-checked against the `time` crate.
use mc::pool::{Outcome, Pool};
use mc::{Args, Report, Tier};
use serde::{Deserialize, Serialize};
use serde_json::json;
use std::time::Duration;
use tracing_subscriber::fmt::format::Writer;
use tracing_subscriber::fmt::time::{FormatTime, SystemTime};

#[derive(Serialize, Deserialize, Clone, Debug)]
enum Job {
    /// every day in [from_day, to_day) (days since 1970-01-01) at the listed (second-of-day, nanos)
    Days { from: i64, to: i64, times: Vec<(i64, u32)> },
    /// every second in [from, to) with the listed nanos
    Seconds { from: i64, to: i64, nanos: Vec<u32> },
    /// explicit instants (secs, nanos)
    Points(Vec<(i64, u32)>),
}

#[derive(Serialize, Deserialize, Default, Debug)]
struct Res {
    evals: u64,
    bad: Vec<(i64, u32, String, String)>,
    nonmono: Vec<(i64, u32, String, String)>,
    first: Option<String>,
    last: Option<String>,
}

/// civil date from days since 1970-01-01 (Howard Hinnant's algorithm, exact for all i64 days we use)
fn civil(z: i64) -> (i64, u32, u32) {
    let z = z as i128 + 719_468;
    let era = z.div_euclid(146_097);
    let doe = z.rem_euclid(146_097);
    let yoe = (doe - doe / 1460 + doe / 36_524 - doe / 146_096) / 365;
    let y = yoe + era * 400;
    let doy = doe - (365 * yoe + yoe / 4 - yoe / 100);
    let mp = (5 * doy + 2) / 153;
    let d = (doy - (153 * mp + 2) / 5 + 1) as u32;
    let m = if mp < 10 { mp + 3 } else { mp - 9 } as u32;
    ((if m <= 2 { y + 1 } else { y }) as i64, m, d)
}

fn expected(secs: i64, nanos: u32) -> String {
    let days = secs.div_euclid(86_400);
    let rem = secs.rem_euclid(86_400);
    let (y, m, d) = civil(days);
    let ys = if y > 9999 {
        format!("+{}", y)
    } else if y < 0 {
        format!("-{:04}", -y)
    } else {
        format!("{:04}", y)
    };
    format!("{}-{:02}-{:02}T{:02}:{:02}:{:02}.{:06}Z", ys, m, d, rem / 3600, rem / 60 % 60, rem % 60, nanos / 1000)
}

fn actual(secs: i64, nanos: u32) -> String {
    mc::sched::set_thread_clock(Some((secs, nanos)));
    let mut s = String::new();
    let mut w = Writer::new(&mut s);
    let r = SystemTime.format_time(&mut w);
    if r.is_err() {
        s.push_str("<fmt::Error>");
    }
    s
}

fn check(res: &mut Res, prev: &mut Option<String>, secs: i64, nanos: u32, in_range_mono: bool) {
    let got = std::panic::catch_unwind(|| actual(secs, nanos)).unwrap_or_else(|_| "<panic>".to_string());
    let want = expected(secs, nanos);
    res.evals += 1;
    if got != want && res.bad.len() < 5 {
        res.bad.push((secs, nanos, got.clone(), want));
    }
    if in_range_mono {
        if let Some(p) = prev {
            if *p > got && res.nonmono.len() < 5 {
                res.nonmono.push((secs, nanos, p.clone(), got.clone()));
            }
        }
    }
    if res.first.is_none() {
        res.first = Some(got.clone());
    }
    res.last = Some(got.clone());
    *prev = Some(got);
}

fn runner(job: &[u8]) -> Vec<u8> {
    mc::sched::install_hooks();
    let job: Job = serde_json::from_slice(job).unwrap();
    let mut res = Res::default();
    let mut prev = None;
    match job {
        Job::Days { from, to, times } => {
            for day in from..to {
                for (sod, ns) in &times {
                    check(&mut res, &mut prev, day * 86_400 + sod, *ns, true);
                }
            }
        }
        Job::Seconds { from, to, nanos } => {
            for s in from..to {
                for ns in &nanos {
                    check(&mut res, &mut prev, s, *ns, true);
                }
            }
        }
        Job::Points(v) => {
            for (s, ns) in v {
                prev = None;
                check(&mut res, &mut prev, s, ns, false);
            }
        }
    }
    serde_json::to_vec(&res).unwrap()
}

/// days since epoch of y-m-d (inverse of `civil`, Hinnant)
fn days_from_civil(y: i64, m: u32, d: u32) -> i64 {
    let y = if m <= 2 { y - 1 } else { y } as i128;
    let era = y.div_euclid(400);
    let yoe = y.rem_euclid(400);
    let mp = if m > 2 { m - 3 } else { m + 9 } as i128;
    let doy = (153 * mp + 2) / 5 + d as i128 - 1;
    let doe = yoe * 365 + yoe / 4 - yoe / 100 + doy;
    (era * 146_097 + doe - 719_468) as i64
}

pub fn run(args: &Args) -> i32 {
    let mut rep = Report::new(args, "exploration");
    let mut jobs: Vec<Job> = vec![];
    // (1) every day of years 0001..=9999 at three times of day
    let d0 = days_from_civil(1, 1, 1);
    let d1 = days_from_civil(10_000, 1, 1);
    let times = vec![(0, 0), (12 * 3600 + 34 * 60 + 56, 789_012_345), (86_399, 999_999_999)];
    let chunk = 40_000;
    let mut d = d0;
    while d < d1 {
        let e = (d + chunk).min(d1);
        jobs.push(Job::Days { from: d, to: e, times: times.clone() });
        d = e;
    }
    // (2) every second in windows around year ends, leap days, century / 400-year boundaries, the epoch
    let years: Vec<i64> = match args.tier {
        Tier::Quick => vec![1, 1600, 1900, 1969, 1970, 2000, 2038, 2100, 2400, 9999],
        Tier::Thorough => vec![1, 4, 100, 400, 1582, 1600, 1700, 1899, 1900, 1969, 1970, 1972, 1999, 2000, 2001, 2024, 2038, 2100, 2200, 2400, 4000, 8000, 9999],
    };
    let half = args.tier.pick(36 * 3600, 72 * 3600);
    let mut windows: Vec<i64> = vec![0]; // the epoch
    for y in &years {
        windows.push(days_from_civil(*y, 12, 31) * 86_400 + 86_400); // year end
        windows.push(days_from_civil(*y, 3, 1) * 86_400); // Feb 28/29 -> Mar 1
    }
    let lo = d0 * 86_400;
    let hi = d1 * 86_400;
    for c in windows {
        let from = (c - half).max(lo);
        let to = (c + half).min(hi);
        let mut s = from;
        while s < to {
            let e = (s + 43_200).min(to);
            jobs.push(Job::Seconds { from: s, to: e, nanos: vec![0, 999_999_999] });
            s = e;
        }
    }
    // (3) sub-second handling on both sides of the epoch and of second boundaries; sign handling
    let subs: Vec<u32> = vec![0, 1, 499, 500, 999, 1_000, 1_001, 1_499, 1_500, 999_999, 1_000_000, 499_999_999, 500_000_000, 999_998_999, 999_999_000, 999_999_499, 999_999_500, 999_999_999];
    let mut pts = vec![];
    for s in -3..=3i64 {
        for ns in &subs {
            pts.push((s, *ns));
        }
    }
    for s in [-86_401i64, -86_400, -86_399, -1, 0, 1, 86_399, 86_400, -62_135_596_800, -62_135_596_801, 253_402_300_799, 253_402_300_800] {
        for ns in &subs {
            pts.push((s, *ns));
        }
    }
    // (4) outside 0001..9999 and out to the extremes the platform's SystemTime can represent:
    // +-2^k seconds (and neighbours); the printed date must still be the correct one
    for k in 0..=62u32 {
        for delta in [-1i64, 0, 1] {
            for sign in [1i64, -1] {
                let s = sign * (1i64 << k) + delta;
                pts.push((s, 0));
                pts.push((s, 999_999_999));
            }
        }
    }
    for y in [-9999i64, -400, -1, 0, 10_000, 10_001, 99_999, 1_000_000, -1_000_000, 2_000_000_000, -2_000_000_000] {
        for (m, dd) in [(1u32, 1u32), (2, 28), (3, 1), (12, 31)] {
            let day = days_from_civil(y, m, dd);
            if let Some(s) = day.checked_mul(86_400) {
                pts.push((s, 0));
                pts.push((s + 86_399, 999_999_999));
            }
        }
    }
    for c in pts.chunks(500) {
        jobs.push(Job::Points(c.to_vec()));
    }
    let njobs = jobs.len();
    let mut pool = Pool::new(mc::pool::default_workers(), runner, false, Duration::from_secs(120));
    let bytes: Vec<Vec<u8>> = jobs.iter().map(|j| serde_json::to_vec(j).unwrap()).collect();
    let mut evals = 0u64;
    let mut results: Vec<(Job, Res)> = vec![];
    let mut failed = vec![];
    pool.run_list(bytes, |job, out| {
        let j: Job = serde_json::from_slice(job).unwrap();
        match out {
            Outcome::Ok(b) => {
                let r: Res = serde_json::from_slice(&b).unwrap();
                results.push((j, r));
            }
            o => failed.push(format!("{:?} on {:?}", o, j)),
        }
    });
    for f in failed {
        rep.machinery_error(f);
    }
    for (j, r) in &results {
        evals += r.evals;
        for (s, ns, got, want) in &r.bad {
            rep.violation(format!("instant {}s+{}ns printed as {} (correct: {})", s, ns, got, want), json!({"secs": s, "nanos": ns, "got": got, "want": want}));
        }
        for (s, ns, p, g) in &r.nonmono {
            rep.violation(format!("output decreased at {}s+{}ns: {} then {}", s, ns, p, g), json!({"secs": s, "nanos": ns}));
        }
        let _ = j;
    }
    // monotonic across chunk boundaries of the day sweep
    let mut day_chunks: Vec<(i64, &Res)> = results.iter().filter_map(|(j, r)| if let Job::Days { from, .. } = j { Some((*from, r)) } else { None }).collect();
    day_chunks.sort_by_key(|x| x.0);
    for w in day_chunks.windows(2) {
        if let (Some(a), Some(b)) = (&w[0].1.last, &w[1].1.first) {
            if a > b {
                rep.violation(format!("output decreased across days: {} then {}", a, b), json!({"day": w[1].0}));
            }
        }
    }
    // second opinion: the `time` crate on one instant per day (independent implementation)
    let mut second = 0u64;
    {
        let mut d = d0;
        while d < d1 {
            let secs = d * 86_400 + 45_296;
            if let Ok(t) = time::OffsetDateTime::from_unix_timestamp(secs) {
                let s = format!("{:04}-{:02}-{:02}T{:02}:{:02}:{:02}.{:06}Z", t.year(), u8::from(t.month()), t.day(), t.hour(), t.minute(), t.second(), 0);
                if s != expected(secs, 0) {
                    rep.machinery_error(format!("oracle disagreement with the time crate at {}: {} vs {}", secs, s, expected(secs, 0)));
                    break;
                }
                second += 1;
            }
            d += 1;
        }
    }
    rep.cov("evaluations", evals);
    rep.cov("distinct_nontrivial", evals);
    rep.cov("exhaustive", true);
    rep.cov("jobs", njobs as u64);
    rep.cov("oracle_cross_checked_days", second);
    rep.cov("rule", "complete sweeps: every day 0001-01-01..9999-12-31 at 00:00:00.0, 12:34:56.789012345 and 23:59:59.999999999; every second (at .0 and .999999999) in windows around each listed year's end and Feb/Mar boundary and around the epoch; an 18-value sub-second grid at -3..3 s, +-1 day, the ends of the 4-digit range; +-2^k s (k=0..62) and neighbours, years <1 and >9999 out to +-2e9. Every evaluation is a distinct instant compared field by field with an independent integer algorithm; consecutive outputs of each sweep must be non-decreasing.");
    rep.sample(json!({"secs": 951_782_400, "nanos": 0, "expected": expected(951_782_400, 0)}));
    rep.sample(json!({"secs": -1, "nanos": 999_999_500, "expected": expected(-1, 999_999_500)}));
    rep.sample(json!({"secs": 253_402_300_800i64, "nanos": 0, "expected": expected(253_402_300_800, 0)}));
    rep.assume("the instant is supplied through the verif-hooks clock seam inside SystemTime::format_time; SystemTime::now() itself is trusted");
    rep.assume("years outside 0000..9999 are compared in ISO 8601 expanded form (+YYYYY / -YYYY) since RFC 3339 does not cover them");
    rep.finish()
}
