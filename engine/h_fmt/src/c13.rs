//! C13 — fmt writes one complete record per event, to exactly the selected writers.
//! (1) routing: every writer expression up to depth 3 over three recording sinks x metadata, against
//!     a denotational model; (2) record shape: every formatter x option combination x span-event
//!     subset x nesting depth, through the real fmt layer; (3) histories with formatting aborted by
//!     a panicking Debug impl and with re-entrant formatting; (4) schedules: threads emitting through
//!     one shared sink under the cooperative scheduler, preempted inside formatting.
use mc::explore::{explore, ExploreCfg, SJob, SResult, Stats};
use mc::pool::{Outcome, Pool};
use mc::sched::{self, End, RunCfg};
use mc::{Args, Report, Tier};
use serde::{Deserialize, Serialize};
use serde_json::json;
use std::collections::BTreeSet;
use std::io::Write;
use std::sync::{Arc, Mutex};
use std::time::{Duration, Instant};
use tracing_core::{Dispatch, Level, Metadata};
use tracing_subscriber::fmt::format::FmtSpan;
use tracing_subscriber::fmt::writer::{BoxMakeWriter, MakeWriterExt};
use tracing_subscriber::fmt::MakeWriter;
use tracing_subscriber::prelude::*;
use tracing_subscriber::registry::Registry;

// ---- recording sinks ----------------------------------------------------------------------------------

#[derive(Clone, Debug, PartialEq, Eq, Serialize, Deserialize)]
pub struct WEv {
    pub sink: u8,
    /// "make" | "make_for" | "write" | "flush"
    pub kind: String,
    /// make_for: "LEVEL target name"; write: the bytes (lossy utf8)
    pub data: String,
    pub tid: u64,
}

pub static WLOG: Mutex<Vec<WEv>> = Mutex::new(Vec::new());
thread_local! { pub static WTID: std::cell::Cell<u64> = const { std::cell::Cell::new(0) }; }

fn wlog(sink: u8, kind: &str, data: String) {
    let tid = mc::sched::current_tid().map(|t| t as u64).unwrap_or_else(|| WTID.with(|t| t.get()));
    WLOG.lock().unwrap_or_else(|e| e.into_inner()).push(WEv { sink, kind: kind.into(), data, tid });
}
pub fn wlog_len() -> usize {
    WLOG.lock().unwrap_or_else(|e| e.into_inner()).len()
}
pub fn wlog_since(n: usize) -> Vec<WEv> {
    WLOG.lock().unwrap_or_else(|e| e.into_inner())[n..].to_vec()
}
pub fn wlog_clear() {
    WLOG.lock().unwrap_or_else(|e| e.into_inner()).clear()
}

#[derive(Clone)]
pub struct Sink {
    pub id: u8,
    /// scheduling points at make / write (schedule part)
    pub points: bool,
}
pub struct SinkWriter {
    id: u8,
    points: bool,
}

impl<'a> MakeWriter<'a> for Sink {
    type Writer = SinkWriter;
    fn make_writer(&'a self) -> SinkWriter {
        wlog(self.id, "make", String::new());
        SinkWriter { id: self.id, points: self.points }
    }
    fn make_writer_for(&'a self, m: &Metadata<'_>) -> SinkWriter {
        if self.points {
            sched::point("sink.make_writer_for");
        }
        wlog(self.id, "make_for", format!("{} {} {}", m.level(), m.target(), m.name()));
        SinkWriter { id: self.id, points: self.points }
    }
}
impl Write for SinkWriter {
    fn write(&mut self, buf: &[u8]) -> std::io::Result<usize> {
        if self.points {
            sched::point("sink.write");
        }
        wlog(self.id, "write", String::from_utf8_lossy(buf).into_owned());
        Ok(buf.len())
    }
    fn flush(&mut self) -> std::io::Result<()> {
        wlog(self.id, "flush", String::new());
        Ok(())
    }
}

// ---- (1) routing ------------------------------------------------------------------------------------------

#[derive(Clone, Debug, Serialize, Deserialize, PartialEq, Eq, Hash, PartialOrd, Ord)]
pub enum WExpr {
    S(u8),
    Max(Box<WExpr>, u8),
    Min(Box<WExpr>, u8),
    Filt(Box<WExpr>, u8),
    And(Box<WExpr>, Box<WExpr>),
    /// child.with_max_level(L).or_else(other)
    OrMax(Box<WExpr>, u8, Box<WExpr>),
    OrMin(Box<WExpr>, u8, Box<WExpr>),
    OrFilt(Box<WExpr>, u8, Box<WExpr>),
}

fn level_of(r: u8) -> Level {
    match r {
        1 => Level::ERROR,
        2 => Level::WARN,
        3 => Level::INFO,
        4 => Level::DEBUG,
        _ => Level::TRACE,
    }
}
fn rank(l: &Level) -> u8 {
    match *l {
        Level::ERROR => 1,
        Level::WARN => 2,
        Level::INFO => 3,
        Level::DEBUG => 4,
        _ => 5,
    }
}

fn pred(p: u8, level: u8, target: &str) -> bool {
    match p {
        0 => target == "a",
        _ => level == 3,
    }
}

fn build(e: &WExpr) -> BoxMakeWriter {
    match e {
        WExpr::S(i) => BoxMakeWriter::new(Sink { id: *i, points: false }),
        WExpr::Max(c, l) => BoxMakeWriter::new(build(c).with_max_level(level_of(*l))),
        WExpr::Min(c, l) => BoxMakeWriter::new(build(c).with_min_level(level_of(*l))),
        WExpr::Filt(c, p) => {
            let p = *p;
            BoxMakeWriter::new(build(c).with_filter(move |m: &Metadata<'_>| pred(p, rank(m.level()), m.target())))
        }
        WExpr::And(a, b) => BoxMakeWriter::new(build(a).and(build(b))),
        WExpr::OrMax(c, l, o) => BoxMakeWriter::new(build(c).with_max_level(level_of(*l)).or_else(build(o))),
        WExpr::OrMin(c, l, o) => BoxMakeWriter::new(build(c).with_min_level(level_of(*l)).or_else(build(o))),
        WExpr::OrFilt(c, p, o) => {
            let p = *p;
            BoxMakeWriter::new(build(c).with_filter(move |m: &Metadata<'_>| pred(p, rank(m.level()), m.target())).or_else(build(o)))
        }
    }
}

/// denotation: the multiset of sinks a record with this metadata reaches
fn den(e: &WExpr, level: u8, target: &str) -> Vec<u8> {
    match e {
        WExpr::S(i) => vec![*i],
        // with_max_level(L): levels at most as verbose as L; with_min_level(L): at least as verbose
        WExpr::Max(c, l) => {
            if level <= *l {
                den(c, level, target)
            } else {
                vec![]
            }
        }
        WExpr::Min(c, l) => {
            if level >= *l {
                den(c, level, target)
            } else {
                vec![]
            }
        }
        WExpr::Filt(c, p) => {
            if pred(*p, level, target) {
                den(c, level, target)
            } else {
                vec![]
            }
        }
        WExpr::And(a, b) => {
            let mut v = den(a, level, target);
            v.extend(den(b, level, target));
            v
        }
        // falls back to `other` exactly when the filtering combinator itself produces no writer
        WExpr::OrMax(c, l, o) => {
            if level <= *l {
                den(c, level, target)
            } else {
                den(o, level, target)
            }
        }
        WExpr::OrMin(c, l, o) => {
            if level >= *l {
                den(c, level, target)
            } else {
                den(o, level, target)
            }
        }
        WExpr::OrFilt(c, p, o) => {
            if pred(*p, level, target) {
                den(c, level, target)
            } else {
                den(o, level, target)
            }
        }
    }
}

fn exprs_of_depth(d: usize, tier: Tier) -> Vec<WExpr> {
    use WExpr::*;
    let bx = |e: &WExpr| Box::new(e.clone());
    if d == 1 {
        return vec![S(0), S(1), S(2)];
    }
    let sub = exprs_upto(d - 1, tier);
    // children used in binary positions: all of depth <= d-1 for d == 2; a pairwise-interesting
    // subset for d == 3 in the quick tier
    let bin: Vec<WExpr> = if d >= 3 && tier == Tier::Quick { sub.iter().step_by(3).cloned().collect() } else { sub.clone() };
    let levels = [1u8, 3, 5];
    let mut v = vec![];
    for c in &sub {
        for l in levels {
            v.push(Max(bx(c), l));
            v.push(Min(bx(c), l));
        }
        for p in [0u8, 1] {
            v.push(Filt(bx(c), p));
        }
    }
    for a in &bin {
        for b in &bin {
            v.push(And(bx(a), bx(b)));
            for l in [1u8, 3] {
                v.push(OrMax(bx(a), l, bx(b)));
                v.push(OrMin(bx(a), l + 1, bx(b)));
            }
            v.push(OrFilt(bx(a), 0, bx(b)));
        }
    }
    v
}

fn exprs_upto(d: usize, tier: Tier) -> Vec<WExpr> {
    let mut v = vec![];
    for k in 1..=d {
        v.extend(exprs_of_depth(k, tier));
    }
    v.sort();
    v.dedup();
    v
}

static M_STORE: Mutex<Vec<&'static Metadata<'static>>> = Mutex::new(Vec::new());

fn metas() -> Vec<&'static Metadata<'static>> {
    let mut g = M_STORE.lock().unwrap();
    if g.is_empty() {
        struct Cs(#[allow(dead_code)] u8);
        impl tracing_core::callsite::Callsite for Cs {
            fn set_interest(&self, _: tracing_core::Interest) {}
            fn metadata(&self) -> &Metadata<'_> {
                unreachable!()
            }
        }
        for t in ["a", "b"] {
            for l in 1..=5u8 {
                let cs: &'static Cs = Box::leak(Box::new(Cs(l)));
                let m: &'static Metadata<'static> = Box::leak(Box::new(Metadata::new(
                    "ev",
                    t,
                    level_of(l),
                    None,
                    None,
                    None,
                    tracing_core::field::FieldSet::new(&[], tracing_core::identify_callsite!(cs)),
                    tracing_core::metadata::Kind::EVENT,
                )));
                g.push(m);
            }
        }
    }
    g.clone()
}

fn check_expr(e: &WExpr) -> (u64, Vec<String>) {
    let mw = build(e);
    let mut bad = vec![];
    let mut n = 0;
    for m in metas() {
        n += 1;
        wlog_clear();
        {
            let mut w = mw.make_writer_for(m);
            let _ = w.write_all(b"record\n");
        }
        let log = wlog_since(0);
        let mut got: Vec<u8> = log.iter().filter(|e| e.kind == "write" && e.data == "record\n").map(|e| e.sink).collect();
        got.sort();
        let mut want = den(e, rank(m.level()), m.target());
        want.sort();
        if got != want {
            bad.push(format!("record with level {} target {} reached sinks {:?}; the expression denotes {:?}", m.level(), m.target(), got, want));
        }
        // a sink is asked for a writer exactly when the record is routed to it (a level bound or a
        // predicate that excludes the record does not consult the factory underneath it)
        let mut asked: Vec<u8> = log.iter().filter(|e| e.kind == "make_for" || e.kind == "make").map(|e| e.sink).collect();
        asked.sort();
        if asked != want {
            bad.push(format!("record with level {} target {}: sinks {:?} were asked for a writer; the expression routes the record to {:?}", m.level(), m.target(), asked, want));
        }
        // every sink that was asked for a writer was asked with this record's metadata
        for x in log.iter().filter(|e| e.kind == "make") {
            bad.push(format!("sink {} was asked make_writer() without the metadata for level {} target {}", x.sink, m.level(), m.target()));
        }
        for x in log.iter().filter(|e| e.kind == "make_for") {
            if x.data != format!("{} {} ev", m.level(), m.target()) {
                bad.push(format!("sink {} was asked for a writer with metadata [{}] for a record [{} {}]", x.sink, x.data, m.level(), m.target()));
            }
        }
    }
    bad.sort();
    bad.dedup();
    (n, bad)
}

// ---- (2) record shape -----------------------------------------------------------------------------------------

#[derive(Clone, Debug, Serialize, Deserialize)]
pub struct ShapeCfg {
    /// 0 full, 1 compact, 2 pretty, 3 json
    pub format: u8,
    /// bits: target, level, thread_ids, thread_names, file, line, ansi, timer
    pub opts: u8,
    pub span_events: u8,
    pub depth: u8,
}

fn workload(depth: u8) {
    // spans named s1..s3 with a field, then an event with two fields; from depth 2 on also an
    // event whose parent is given explicitly (s1) while a deeper span is entered
    fn inner() {
        tracing::event!(name: "the_event", target: "tgt", tracing::Level::INFO, answer = 42, who = "wh\"o", "hello world");
    }
    fn xp(p: &tracing::Span) {
        tracing::event!(name: "xp_event", target: "tgt", parent: p, tracing::Level::INFO, "explicit parent");
    }
    // ... and, after a value was recorded on the outermost span while the inner ones stay entered,
    // one more event from the innermost span
    fn later(s1: &tracing::Span) {
        s1.record("late", 7);
        tracing::event!(name: "later_event", target: "tgt", tracing::Level::INFO, "after the record");
    }
    match depth {
        0 => inner(),
        1 => tracing::span!(tracing::Level::INFO, "s1", a = 1).in_scope(inner),
        2 => {
            let s1 = tracing::span!(tracing::Level::INFO, "s1", a = 1, late = tracing::field::Empty);
            s1.in_scope(|| {
                tracing::span!(tracing::Level::INFO, "s2", b = "two").in_scope(|| {
                    inner();
                    xp(&s1);
                    later(&s1)
                })
            })
        }
        _ => {
            let s1 = tracing::span!(tracing::Level::INFO, "s1", a = 1, late = tracing::field::Empty);
            s1.in_scope(|| {
                tracing::span!(tracing::Level::INFO, "s2", b = "two").in_scope(|| {
                    tracing::span!(tracing::Level::INFO, "s3", c = true).in_scope(|| {
                        inner();
                        xp(&s1);
                        later(&s1)
                    })
                })
            })
        }
    }
}

/// how a format prints span field k (name and value)
fn span_field_needle(format: u8, k: usize) -> String {
    let (f, v) = [("a", "1"), ("b", "\"two\""), ("c", "true")][k];
    match format {
        2 => format!("{}: {}", f, v),
        3 => format!("\"{}\":{}", f, v),
        _ => format!("{}={}", f, v),
    }
}

fn shape_dispatch<W>(c: &ShapeCfg, sink: W) -> Dispatch
where
    W: for<'w> MakeWriter<'w> + Send + Sync + 'static,
{
    let o = c.opts;
    let b = |i: u8| o & (1 << i) != 0;
    let spans = {
        let mut s = FmtSpan::NONE;
        if c.span_events & 1 != 0 {
            s |= FmtSpan::NEW;
        }
        if c.span_events & 2 != 0 {
            s |= FmtSpan::ENTER;
        }
        if c.span_events & 4 != 0 {
            s |= FmtSpan::EXIT;
        }
        if c.span_events & 8 != 0 {
            s |= FmtSpan::CLOSE;
        }
        s
    };
    macro_rules! finish {
        ($l:expr) => {{
            let l = $l.with_target(b(0)).with_level(b(1)).with_thread_ids(b(2)).with_thread_names(b(3)).with_file(b(4)).with_line_number(b(5)).with_ansi(b(6)).with_span_events(spans).with_writer(sink);
            if b(7) {
                Dispatch::new(Registry::default().with(l))
            } else {
                Dispatch::new(Registry::default().with(l.without_time()))
            }
        }};
    }
    match c.format {
        0 => finish!(tracing_subscriber::fmt::subscriber()),
        1 => finish!(tracing_subscriber::fmt::subscriber().compact()),
        2 => finish!(tracing_subscriber::fmt::subscriber().pretty()),
        _ => finish!(tracing_subscriber::fmt::subscriber().json()),
    }
}

fn strip_ansi(s: &str) -> String {
    let mut out = String::new();
    let mut it = s.chars().peekable();
    while let Some(c) = it.next() {
        if c == '\u{1b}' {
            // CSI ... letter
            if it.peek() == Some(&'[') {
                it.next();
                for d in it.by_ref() {
                    if d.is_ascii_alphabetic() {
                        break;
                    }
                }
            }
        } else {
            out.push(c);
        }
    }
    out
}

fn check_shape(c: &ShapeCfg) -> (u64, Vec<String>) {
    mc::sched::install_hooks();
    mc::sched::set_thread_clock(Some((1_600_000_000, 123_456_789)));
    wlog_clear();
    let d = shape_dispatch(c, Sink { id: 0, points: false });
    tracing_core::dispatch::with_default(&d, || workload(c.depth));
    let log = wlog_since(0);
    let mut bad = vec![];
    // expected records: span lifecycle points for each of `depth` spans + 1 event
    let per_span = (c.span_events & 1 != 0) as usize + (c.span_events & 2 != 0) as usize + (c.span_events & 4 != 0) as usize + (c.span_events & 8 != 0) as usize;
    let expected_records = per_span * c.depth as usize + 1 + 2 * usize::from(c.depth >= 2);
    let makes: Vec<&WEv> = log.iter().filter(|e| e.kind == "make_for" || e.kind == "make").collect();
    let writes: Vec<&WEv> = log.iter().filter(|e| e.kind == "write").collect();
    if makes.len() != expected_records || writes.len() != expected_records {
        bad.push(format!("{} records expected ({} span lifecycle points + 1 event): the writer factory was asked {} times, {} writes", expected_records, per_span * c.depth as usize, makes.len(), writes.len()));
    }
    // strict alternation: one factory call, then one write of the whole record
    let seq: Vec<&str> = log.iter().filter(|e| e.kind != "flush").map(|e| if e.kind == "write" { "w" } else { "m" }).collect();
    if seq.chunks(2).any(|p| p != ["m", "w"]) {
        bad.push(format!("factory calls and writes are not strictly one write per factory call: {:?}", seq));
    }
    for m in &makes {
        if m.kind == "make" {
            bad.push("the writer factory was asked without the event's metadata".into());
        }
    }
    for w in &writes {
        if !w.data.ends_with('\n') {
            bad.push(format!("record does not end with a newline: {:?}", w.data));
        }
        if c.format != 2 && w.data.trim_end_matches('\n').contains('\n') {
            bad.push(format!("record of a single-line format spans several lines: {:?}", w.data));
        }
        if w.data.trim().is_empty() {
            bad.push("empty record".into());
        }
    }
    // the event's own record (it is the one whose factory call carries the event's metadata)
    let ev_idx = log.iter().position(|e| e.kind == "make_for" && e.data.ends_with("tgt the_event"));
    match ev_idx {
        None => bad.push("no factory call carried the event's own metadata (INFO tgt the_event)".into()),
        Some(i) => {
            let rec = log[i + 1..].iter().find(|e| e.kind == "write").map(|e| strip_ansi(&e.data)).unwrap_or_default();
            // (the compact format abbreviates the level to one coloured letter when ANSI is on)
            // (the compact format names levels by their initial letter: "i" for INFO)
            let level_named = rec.contains("INFO") || (c.format == 1 && rec.split_whitespace().take(2).any(|tok| tok == "i"));
            if c.opts & 2 != 0 && !level_named {
                bad.push(format!("the record does not name the level: {:?}", rec));
            }
            for needle in ["hello world", "42"] {
                if !rec.contains(needle) {
                    bad.push(format!("the record lacks {:?}: {:?}", needle, rec));
                }
            }
            if !(rec.contains("wh\\\"o") || rec.contains("wh\"o")) {
                bad.push(format!("the record lacks the value of field who: {:?}", rec));
            }
            for f in ["answer", "who"] {
                if !rec.contains(f) {
                    bad.push(format!("the record lacks field {:?}: {:?}", f, rec));
                }
            }
            // spans in scope, in nesting order, with their fields. What each format prints for a
            // span: full / pretty / json name it and list its fields; compact lists only the fields.
            let names = ["s1", "s2", "s3"];
            let vals = ["1", "two", "true"];
            let fields = ["a", "b", "c"];
            let mut positions: Vec<usize> = vec![];
            for k in 0..c.depth as usize {
                let needle_field = match c.format {
                    2 => format!("{}: ", fields[k]),
                    3 => format!("\"{}\":", fields[k]),
                    _ => format!("{}=", fields[k]),
                };
                if !rec.contains(vals[k]) {
                    bad.push(format!("the record lacks the value {} of field {} of span {}: {:?}", vals[k], fields[k], names[k], rec));
                }
                // search after the event's own fields for the formats that list spans last
                match rec.rfind(&needle_field) {
                    Some(p) => positions.push(p),
                    None => bad.push(format!("the record lacks field {} of span {} in scope: {:?}", needle_field, names[k], rec)),
                }
                if c.format != 1 && !rec.contains(names[k]) {
                    bad.push(format!("the record does not name span {} in scope: {:?}", names[k], rec));
                }
            }
            if positions.len() == c.depth as usize {
                let ordered = if c.format == 2 { positions.windows(2).all(|w| w[0] > w[1]) } else { positions.windows(2).all(|w| w[0] < w[1]) };
                if !ordered {
                    bad.push(format!("spans in scope are not listed in nesting order: {:?}", rec));
                }
            }
        }
    }
    // span lifecycle records and the explicitly parented event: the spans in THEIR scope with fields
    for (i, e) in log.iter().enumerate() {
        if e.kind != "make_for" {
            continue;
        }
        let Some(rec) = log[i + 1..].iter().find(|x| x.kind == "write").map(|x| strip_ansi(&x.data)) else { continue };
        let name = e.data.rsplit(' ').next().unwrap_or("");
        let in_scope: Option<usize> = match name {
            "s1" => Some(1),
            "s2" => Some(2),
            "s3" => Some(3),
            "xp_event" => Some(1),
            _ => None,
        };
        if name == "later_event" {
            // every span in scope with its fields as they are now, including the value recorded
            // on s1 after earlier records from the same spans were formatted
            let late = match c.format {
                2 => "late: 7",
                3 => "\"late\":7",
                _ => "late=7",
            };
            if !rec.contains(late) {
                bad.push(format!("the record of the event emitted after s1.record(late = 7) lacks {:?}: {:?}", late, rec));
            }
            for k in 0..3usize.min(c.depth as usize) {
                let needle = span_field_needle(c.format, k);
                if !(rec.replace(": \"", ":\"").contains(&needle) || rec.contains(&needle)) {
                    bad.push(format!("the record of later_event lacks {} of the span in its scope: {:?}", needle, rec));
                }
            }
        }
        if let Some(n) = in_scope {
            for k in 0..3usize.min(c.depth as usize) {
                let needle = span_field_needle(c.format, k);
                let present = rec.replace(": \"", ":\"").contains(&needle) || rec.contains(&needle);
                if k < n && !present {
                    bad.push(format!("the record of {} lacks {} of the span in its scope: {:?}", name, needle, rec));
                }
                if name == "xp_event" && k >= n && present {
                    bad.push(format!("the record of the event whose explicit parent is s1 lists {} of a span that is not in its scope: {:?}", needle, rec));
                }
            }
        }
    }
    bad.sort();
    bad.dedup();
    (expected_records as u64, bad)
}

// ---- (3) histories with aborted formatting -------------------------------------------------------------------

struct PanicDebug;
impl std::fmt::Debug for PanicDebug {
    fn fmt(&self, _: &mut std::fmt::Formatter<'_>) -> std::fmt::Result {
        std::panic::resume_unwind(Box::new("scripted panic in Debug"))
    }
}
struct ReentrantDebug;
impl std::fmt::Debug for ReentrantDebug {
    fn fmt(&self, f: &mut std::fmt::Formatter<'_>) -> std::fmt::Result {
        tracing::event!(name: "inner", tracing::Level::INFO, "emitted while formatting");
        f.write_str("reentrant")
    }
}

fn check_history(format: u8, h: &[u8]) -> Vec<String> {
    let mut bad = check_history_with(format, h, false);
    // the same history through the crate's `MakeWriter for Mutex<W>` (a writer that holds a lock for
    // as long as it lives); re-entrant formatting is left out of this variant (it would need a
    // re-entrant lock whatever the formatter does)
    if !h.contains(&2) {
        bad.extend(check_history_with(format, h, true).into_iter().map(|m| format!("[writer = Mutex<W>] {}", m)));
    }
    bad
}

fn check_history_with(format: u8, h: &[u8], locked_writer: bool) -> Vec<String> {
    wlog_clear();
    let cfg = ShapeCfg { format, opts: 0b0000_0011, span_events: 0, depth: 0 };
    let d = if locked_writer { shape_dispatch(&cfg, std::sync::Mutex::new(SinkWriter { id: 0, points: false })) } else { shape_dispatch(&cfg, Sink { id: 0, points: false }) };
    let mut bad = vec![];
    tracing_core::dispatch::with_default(&d, || {
        for (i, op) in h.iter().enumerate() {
            let n0 = wlog_len();
            match op {
                0 => {
                    if let Err(p) = std::panic::catch_unwind(|| tracing::event!(name: "normal", tracing::Level::INFO, k = i, "plain")) {
                        let m = p.downcast_ref::<String>().cloned().or_else(|| p.downcast_ref::<&str>().map(|s| s.to_string())).unwrap_or_default();
                        bad.push(format!("step {}: emitting a normal event panicked: {}", i, m));
                    }
                    let w: Vec<WEv> = wlog_since(n0).into_iter().filter(|e| e.kind == "write").collect();
                    if w.len() != 1 {
                        bad.push(format!("step {}: a normal event produced {} writes", i, w.len()));
                    } else {
                        let rec = &w[0].data;
                        let body = rec.trim_end_matches('\n');
                        if body.matches("plain").count() != 1 || body.contains('\n') || rec.contains("first=") || rec.contains("reentrant") || rec.contains("emitted while formatting") {
                            bad.push(format!("step {}: the record is not exactly this event's record: {:?}", i, rec));
                        }
                        if rec.contains("partial") || rec.contains("boom") {
                            bad.push(format!("step {}: the record carries left-over text of an aborted record: {:?}", i, rec));
                        }
                        if format == 3 && !rec.starts_with('{') {
                            bad.push(format!("step {}: the JSON record does not start with an object: {:?}", i, rec));
                        }
                    }
                }
                1 => {
                    let r = std::panic::catch_unwind(|| {
                        tracing::event!(name: "panicky", tracing::Level::INFO, first = 1, boom = ?PanicDebug, "partial");
                    });
                    if r.is_ok() {
                        bad.push(format!("step {}: the scripted Debug panic did not propagate", i));
                    }
                }
                _ => {
                    tracing::event!(name: "outer", tracing::Level::INFO, v = ?ReentrantDebug, "outer message");
                    let w: Vec<WEv> = wlog_since(n0).into_iter().filter(|e| e.kind == "write").collect();
                    // the outer record must be whole; the event emitted from inside the formatter is
                    // either dropped (tracing's re-entrancy guard) or written as its own whole record
                    let inner = w.iter().filter(|e| e.data.contains("emitted while formatting") && !e.data.contains("outer message")).count();
                    let outer = w.iter().filter(|e| e.data.contains("outer message") && e.data.contains("reentrant") && !e.data.contains("emitted while formatting") && !e.data.contains("first=")).count();
                    if outer != 1 || inner > 1 || w.len() != outer + inner {
                        bad.push(format!("step {}: re-entrant formatting: records are mixed or missing: {:?}", i, w.iter().map(|e| e.data.clone()).collect::<Vec<_>>()));
                    }
                }
            }
        }
    });
    bad
}

// ---- (4) schedules ----------------------------------------------------------------------------------------------

struct YieldDebug(u32);
impl std::fmt::Debug for YieldDebug {
    fn fmt(&self, f: &mut std::fmt::Formatter<'_>) -> std::fmt::Result {
        sched::point("harness.debug.yield");
        write!(f, "y{}", self.0)
    }
}

#[derive(Clone, Debug, Serialize, Deserialize)]
pub struct Scenario {
    pub format: u8,
    pub threads: usize,
    pub events: usize,
}

pub fn run_schedule(job: &[u8]) -> Vec<u8> {
    let job: SJob = serde_json::from_slice(job).unwrap();
    let sc: Scenario = serde_json::from_str(&job.scenario).unwrap();
    sched::install_hooks();
    wlog_clear();
    let d = shape_dispatch(&ShapeCfg { format: sc.format, opts: 0b0000_0011, span_events: 0, depth: 0 }, Sink { id: 0, points: true });
    let bodies: Vec<Box<dyn FnOnce() + Send>> = (0..sc.threads)
        .map(|t| {
            let d = d.clone();
            let n = sc.events;
            Box::new(move || {
                let _g = tracing_core::dispatch::set_default(&d);
                for k in 0..n {
                    let id = (100 + t * 10 + k) as u32;
                    tracing::event!(name: "ev", tracing::Level::INFO, id = id, y = ?YieldDebug(id), "from thread");
                }
            }) as Box<dyn FnOnce() + Send>
        })
        .collect();
    let trace = sched::run_threads(RunCfg { prefix: job.prefix.clone(), horizon: 4000, record_steps: job.record_steps }, bodies);
    let mut v = vec![];
    match &trace.end {
        End::Done => {}
        End::Deadlock(w) => v.push(format!("deadlock: {:?}", w)),
        End::Livelock => v.push("livelock".into()),
        End::Diverged(_) => {}
    }
    for (t, m) in &trace.panics {
        v.push(format!("panic on t{}: {}", t, m));
    }
    let log = wlog_since(0);
    let writes: Vec<&WEv> = log.iter().filter(|e| e.kind == "write").collect();
    let mut obs = String::new();
    if trace.end == End::Done {
        let mut want: BTreeSet<u32> = BTreeSet::new();
        for t in 0..sc.threads {
            for k in 0..sc.events {
                // same number of digits for every id, so that no id is a prefix of another
                want.insert((100 + t * 10 + k) as u32);
            }
        }
        let mut seen: BTreeSet<u32> = BTreeSet::new();
        for w in &writes {
            let rec = &w.data;
            // each write is exactly one whole record of one event
            let ids: Vec<u32> = want.iter().filter(|id| rec.contains(&format!("y{}", id)) && (rec.contains(&format!("id={}", id)) || rec.contains(&format!("id: {}", id)) || rec.contains(&format!("\"id\":{}", id)))).cloned().collect();
            if ids.len() != 1 || rec.matches("from thread").count() != 1 || !rec.ends_with('\n') || (sc.format != 2 && rec.trim_end_matches('\n').contains('\n')) {
                v.push(format!("a write is not exactly one whole record: {:?}", rec));
            } else {
                if !seen.insert(ids[0]) {
                    v.push(format!("record of event {} written twice", ids[0]));
                }
                if ((ids[0] - 100) / 10) as u64 != w.tid {
                    v.push(format!("record of event {} was written by thread {}", ids[0], w.tid));
                }
            }
            obs.push_str(&format!("{};", ids.first().map_or(-1, |x| *x as i64)));
        }
        if seen != want && v.is_empty() {
            v.push(format!("records written for events {:?}, expected {:?}", seen, want));
        }
    }
    v.sort();
    v.dedup();
    serde_json::to_vec(&SResult { trace: Some(trace), violations: v, known: vec![], obs, conflicts: vec![] }).unwrap()
}

// ---- driver -----------------------------------------------------------------------------------------------------

#[derive(Serialize, Deserialize, Clone, Debug)]
enum Job {
    Route(Vec<WExpr>),
    Shape(Vec<ShapeCfg>),
    Hist(u8, Vec<Vec<u8>>),
}

#[derive(Serialize, Deserialize, Clone, Debug, Default)]
struct Res {
    evals: u64,
    bad: Vec<(String, Vec<String>)>,
}

fn runner(job: &[u8]) -> Vec<u8> {
    let job: Job = serde_json::from_slice(job).unwrap();
    let mut res = Res::default();
    match job {
        Job::Route(es) => {
            for e in es {
                let (n, bad) = std::panic::catch_unwind(|| check_expr(&e)).unwrap_or((0, vec!["panic".into()]));
                res.evals += n;
                if !bad.is_empty() && res.bad.len() < 30 {
                    res.bad.push((serde_json::to_string(&json!({"expr": e})).unwrap(), bad));
                }
            }
        }
        Job::Shape(cs) => {
            for c in cs {
                let (n, bad) = std::panic::catch_unwind(|| check_shape(&c)).unwrap_or((0, vec!["panic".into()]));
                res.evals += n;
                if !bad.is_empty() && res.bad.len() < 30 {
                    res.bad.push((serde_json::to_string(&json!({"shape": c})).unwrap(), bad));
                }
            }
        }
        Job::Hist(format, hs) => {
            for h in hs {
                // fresh thread: a clean thread-local buffer per history
                let hh = h.clone();
                let bad = std::thread::spawn(move || check_history(format, &hh)).join().unwrap_or_else(|_| vec!["panic escaped the history".into()]);
                res.evals += h.len() as u64;
                if !bad.is_empty() && res.bad.len() < 30 {
                    res.bad.push((serde_json::to_string(&json!({"format": format, "history": h})).unwrap(), bad));
                }
            }
        }
    }
    serde_json::to_vec(&res).unwrap()
}

pub fn run(args: &Args) -> i32 {
    let mut rep = Report::new(args, "model_checking");
    if let Some(p) = &args.replay {
        let v: serde_json::Value = serde_json::from_str(&std::fs::read_to_string(p).expect("read replay")).expect("json");
        let c = &v["case"];
        let bad: Vec<String> = if c.get("expr").is_some() {
            check_expr(&serde_json::from_value(c["expr"].clone()).unwrap()).1
        } else if c.get("shape").is_some() {
            check_shape(&serde_json::from_value(c["shape"].clone()).unwrap()).1
        } else if c.get("history").is_some() {
            check_history(c["format"].as_u64().unwrap() as u8, &serde_json::from_value::<Vec<u8>>(c["history"].clone()).unwrap())
        } else {
            let mut job: SJob = serde_json::from_value(c.clone()).unwrap();
            job.record_steps = true;
            match mc::pool::run_isolated(run_schedule, &serde_json::to_vec(&job).unwrap(), Duration::from_secs(30)) {
                Outcome::Ok(b) => serde_json::from_slice::<SResult>(&b).unwrap().violations,
                o => vec![format!("child {:?}", o)],
            }
        };
        for x in &bad {
            println!("VIOLATION property={} replay={} :: {}", args.property, p, x);
        }
        if bad.is_empty() {
            println!("replay: no violation");
        }
        return i32::from(!bad.is_empty());
    }
    // (1) routing
    let es = exprs_upto(3, args.tier);
    let mut jobs: Vec<Job> = es.chunks(400).map(|c| Job::Route(c.to_vec())).collect();
    // (2) shapes
    let mut shapes = vec![];
    for format in 0..4u8 {
        for opts in 0..=255u8 {
            // quick: all option bytes but only the span-event subsets {none, each single, all}; thorough: all 16
            let subsets: Vec<u8> = if args.tier == Tier::Quick { vec![0, 1, 2, 4, 8, 15] } else { (0..16).collect() };
            for se in subsets {
                for depth in 0..=3u8 {
                    if args.tier == Tier::Quick && depth == 2 {
                        continue;
                    }
                    shapes.push(ShapeCfg { format, opts, span_events: se, depth });
                }
            }
        }
    }
    let nshapes = shapes.len();
    jobs.extend(shapes.chunks(300).map(|c| Job::Shape(c.to_vec())));
    // (3) histories over {normal, panicking Debug, re-entrant Debug}
    let hdepth = args.tier.pick(5, 7);
    let mut hists: Vec<Vec<u8>> = vec![];
    fn gen(cur: &mut Vec<u8>, d: usize, out: &mut Vec<Vec<u8>>) {
        if !cur.is_empty() {
            out.push(cur.clone());
        }
        if cur.len() == d {
            return;
        }
        for op in 0..3u8 {
            cur.push(op);
            gen(cur, d, out);
            cur.pop();
        }
    }
    gen(&mut vec![], hdepth, &mut hists);
    let nh = hists.len();
    for format in 0..4u8 {
        jobs.extend(hists.chunks(100).map(|c| Job::Hist(format, c.to_vec())));
    }
    let mut evals = 0u64;
    let mut bad: Vec<(String, Vec<String>)> = vec![];
    {
        let mut pool = Pool::new(mc::pool::default_workers(), runner, false, Duration::from_secs(900));
        let mut crashed = vec![];
        pool.run_list(jobs.iter().map(|j| serde_json::to_vec(j).unwrap()).collect(), |_, out| match out {
            Outcome::Ok(b) => {
                let r: Res = serde_json::from_slice(&b).unwrap();
                evals += r.evals;
                bad.extend(r.bad);
            }
            o => crashed.push(format!("{:?}", o)),
        });
        for c in crashed {
            rep.machinery_error(c);
        }
    }
    bad.sort();
    for (case, msgs) in &bad {
        rep.violation(format!("{} :: {} (+{} more)", case, msgs[0], msgs.len() - 1), serde_json::from_str(case).unwrap());
    }
    // (4) schedules
    let mut pool = Pool::new(mc::pool::default_workers(), run_schedule, true, Duration::from_secs(30));
    let bound = args.tier.pick(2, 3);
    let mut tot = (0u64, 0u64, 0u64);
    let mut per = vec![];
    let mut capped = false;
    let scs: Vec<Scenario> = match args.tier {
        Tier::Quick => vec![Scenario { format: 0, threads: 2, events: 1 }, Scenario { format: 3, threads: 2, events: 1 }, Scenario { format: 1, threads: 3, events: 1 }],
        Tier::Thorough => (0..4u8).flat_map(|f| vec![Scenario { format: f, threads: 2, events: 2 }, Scenario { format: f, threads: 3, events: 1 }]).collect(),
    };
    for sc in &scs {
        let mut st = Stats::default();
        let cfg = ExploreCfg { bound, deadline: Instant::now() + Duration::from_secs(args.tier.pick(6, 120)), max_schedules: u64::MAX, stop_on_violation: true };
        explore(&mut pool, &serde_json::to_string(sc).unwrap(), &cfg, &mut st);
        tot.0 += st.schedules;
        tot.1 += st.tree_nodes;
        tot.2 += st.steps;
        capped |= st.capped;
        per.push(json!({"scenario": sc, "schedules": st.schedules, "by_preemptions": st.by_cost, "distinct_outcomes": st.distinct_obs.len(), "capped": st.capped}));
        for m in st.machinery {
            rep.machinery_error(format!("{:?}: {}", sc, m));
        }
        for (what, job) in st.violations.iter().take(2) {
            rep.violation(format!("[{:?}] {}", sc, what), serde_json::to_value(job).unwrap());
        }
        if let Some((job, labels)) = st.sample {
            rep.sample(json!({"scenario": sc, "schedule_choices": job.prefix, "decision_labels": labels}));
        }
    }
    rep.cov("states", tot.1 + es.len() as u64 + nshapes as u64 + (nh * 4) as u64);
    rep.cov("transitions", tot.2 + evals);
    rep.cov("traces_validated_against_impl", tot.0 + evals);
    rep.cov("writer_expressions", es.len() as u64);
    rep.cov("record_shape_configurations", nshapes as u64);
    rep.cov("abort_histories", (nh * 4) as u64);
    rep.cov("abort_history_depth", hdepth as u64);
    rep.cov("schedules", tot.0);
    rep.cov("preemption_bound", bound as u64);
    rep.cov("schedule_bound_completed", !capped);
    rep.cov("scenarios", json!(per));
    rep.sample(json!({"writer_expression": es[es.len() / 2], "metadata": "WARN target b"}));
    rep.sample(json!({"shape": shapes[shapes.len() / 3]}));
    rep.cov("explanation", "routing: every writer expression up to depth 3 (quick: depth-3 binary nodes over a 1-in-3 subset of children) over sinks A,B,C x {max/min level, predicate, tee, or_else} evaluated on 5 levels x 2 targets against the denotation; shape: formatter x 8 option bits x span-event subset x nesting depth through the real layer (one factory call with the event's metadata + one newline-terminated write per record, fields and spans present); abort histories: all sequences over {normal event, event whose Debug panics (caught), event whose Debug emits an event} on a fresh thread per history; schedules: threads emitting through one shared sink with scheduling points at the sink and inside field formatting");
    rep.assume("field values contain no raw newlines (as the property says)");
    rep.assume("pretty format is multi-line by design: the one-line clause is checked for full, compact and json only");
    rep.finish()
}

pub fn debug_shape() {
    for (format, opts) in [(1u8, 127u8), (0, 127), (2, 127), (3, 127), (1, 0b0000_0011)] {
        wlog_clear();
        mc::sched::install_hooks();
        mc::sched::set_thread_clock(Some((1_600_000_000, 123_456_789)));
        let d = shape_dispatch(&ShapeCfg { format, opts, span_events: 15, depth: 1 }, Sink { id: 0, points: false });
        tracing_core::dispatch::with_default(&d, || workload(1));
        for e in wlog_since(0) {
            println!("{} {} {:?}", format, e.kind, e.data);
        }
    }
}
