//! Harness for the formatting-layer properties: C13 C14 C20.
mod c20;

fn main() {
    let args = mc::parse_args();
    let code = match args.property.as_str() {
        "C20" => c20::run(&args),
        p => {
            eprintln!("h_fmt: unknown property {}", p);
            2
        }
    };
    std::process::exit(code);
}
