//! Harness for the formatting-layer properties: C13 C14 C20.
mod c13;
mod c14;
mod c20;

fn main() {
    let args = mc::parse_args();
    let code = match args.property.as_str() {
        "C13" => c13::run(&args),
        "C14" => c14::run(&args),
        "C20" => c20::run(&args),
        "DBG13" => { c13::debug_shape(); 0 }
        p => {
            eprintln!("h_fmt: unknown property {}", p);
            2
        }
    };
    std::process::exit(code);
}
