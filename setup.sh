#!/bin/bash
# Build the framework offline from files on disk (fresh restore).
set -e
cd "$(dirname "$0")/engine"
export CARGO_NET_OFFLINE=true
[ -f Cargo.lock ] || cp /repo/Cargo.lock Cargo.lock
cargo build --release --offline --workspace 2>&1 | tail -3
