#!/bin/bash
# Build the framework offline from files on disk (fresh restore).
set -e
cd "$(dirname "$0")/engine"
export CARGO_NET_OFFLINE=true
[ -f Cargo.lock ] || cp /repo/Cargo.lock Cargo.lock
# one package at a time: building the whole workspace at once would unify cargo features across
# the harness crates (h_static enables tracing/max_level_info, h_log enables tracing/log)
for p in mc h_core h_reg h_fmt h_filt h_span h_static h_app h_attr h_log; do
  [ -d "$p" ] || continue
  cargo build --release --offline -q -p "$p" 2>&1 | tail -3
done
